"""Witness programs for the genuine defects D1..D17 of the pinned S-Coda tree.

Usage: /venv/bin/python witnesses.py [D1 D2 ...]   (REPO=/path to test another tree)
Each witness runs the *real* code and prints  `Dk FAIL <what>`  when the defect is present,
`Dk ok` otherwise.  Exit status 1 iff some selected witness failed.
"""
import os, sys
sys.path.insert(0, os.environ.get("REPO", "/repo"))
import logging; logging.disable(logging.CRITICAL)
from scoda.elements.message import Message
from scoda.enumerations.message_type import MessageType as MT
from scoda.sequences.sequence import Sequence
from scoda.sequences.absolute_sequence import AbsoluteSequence
from scoda.sequences.relative_sequence import RelativeSequence
from scoda.elements.bar import Bar
from scoda.misc.music_theory import Key
from scoda.exceptions.bar_exception import BarException


def rel(*items):
    """items: ints = wait, ('on',p[,c[,v]]), ('off',p[,c]), ('ts',n,d), ('ks',Key), ('cc',ctl,val)"""
    out = []
    for it in items:
        if isinstance(it, int):
            out.append(Message(message_type=MT.WAIT, time=it))
        elif it[0] == 'on':
            out.append(Message(message_type=MT.NOTE_ON, note=it[1], channel=(it[2] if len(it) > 2 else 0), velocity=(it[3] if len(it) > 3 else 64)))
        elif it[0] == 'off':
            out.append(Message(message_type=MT.NOTE_OFF, note=it[1], channel=(it[2] if len(it) > 2 else 0)))
        elif it[0] == 'ts':
            out.append(Message(message_type=MT.TIME_SIGNATURE, numerator=it[1], denominator=it[2]))
        elif it[0] == 'ks':
            out.append(Message(message_type=MT.KEY_SIGNATURE, key=it[1]))
        elif it[0] == 'cc':
            out.append(Message(message_type=MT.CONTROL_CHANGE, control=it[1], velocity=it[2]))
    return out

def rseq(*items): return Sequence(relative_sequence=RelativeSequence(rel(*items)))
def absl(*items):
    out = []
    for it in items:
        k = it[0]
        if k == 'on': out.append(Message(message_type=MT.NOTE_ON, time=it[1], note=it[2], channel=(it[3] if len(it) > 3 else 0), velocity=64))
        elif k == 'off': out.append(Message(message_type=MT.NOTE_OFF, time=it[1], note=it[2], channel=(it[3] if len(it) > 3 else 0)))
        elif k == 'cc': out.append(Message(message_type=MT.CONTROL_CHANGE, time=it[1], control=it[2], velocity=it[3]))
        elif k == 'ks': out.append(Message(message_type=MT.KEY_SIGNATURE, time=it[1], key=it[2]))
        elif k == 'int': out.append(Message(message_type=MT.INTERNAL, time=it[1]))
    return out
def canon_abs(seq_abs):
    return sorted((m.time, m.message_type.value, m.channel, m.note, m.velocity, m.numerator, m.denominator, m.key.value if m.key else None) for m in seq_abs._messages if m.message_type != MT.INTERNAL), max([m.time for m in seq_abs._messages] + [0])
def notes_of(seq):
    """independent pairing oracle: per (channel,pitch) FIFO; returns sorted (c,p,on,dur)"""
    op, out = {}, []
    for m in seq.abs._messages:
        k = (m.channel, m.note)
        if m.message_type == MT.NOTE_ON: op.setdefault(k, []).append(m.time)
        elif m.message_type == MT.NOTE_OFF and op.get(k): out.append((k[0], k[1], op[k].pop(0), m.time))
    return sorted((c, p, a, b - a) for c, p, a, b in out)

W = {}
def witness(f): W[f.__name__] = f; return f

@witness
def D1():
    r = [Key.transpose_key(Key.C, 0), Key.transpose_key(Key.G, 12), Key.transpose_key(Key.D_B, -24)]
    return None if all(x is not None for x in r) else f"transpose_key by multiples of 12 -> {r}"
@witness
def D2():
    b = Bar(rseq(('on', 60), 24, ('off', 60)), 4, 4)
    bad = [m.time for m in b.sequence.rel._messages if m.message_type == MT.WAIT and type(m.time) is not int]
    return f"non-int wait times in padded bar: {bad}" if bad else None
@witness
def D3():
    try: Bar(rseq(('on', 60), 200, ('off', 60)), 4, 4)
    except BarException: return None
    return "200-tick sequence accepted as a 4/4 bar (96 ticks)"
@witness
def D4():
    from scoda.tokenisation.notelike_tokenisation import MultiTrackLargeVocabularyNotelikeTokeniser as Tk
    t = Tk(num_tracks=1, flag_fuse_velocity=False)
    toks = t.tokenise([rseq(('on', 60), 24, ('off', 60), 72)])
    missing = [x for x in toks if x not in t.dictionary]
    return f"emitted tokens not in vocabulary: {missing}" if missing else None
@witness
def D5():
    from scoda.tokenisation.notelike_tokenisation import MultiTrackLargeVocabularyNotelikeTokeniser as Tk
    t = Tk(num_tracks=1, velocity_bins=4)
    toks = t.tokenise([rseq(('on', 60, 0, 100), 24, ('off', 60), 72)])
    try: t.detokenise(t.decode(t.encode(toks)))
    except Exception as e: return f"velocity_bins=4: {toks[:2]} -> {type(e).__name__}: {e}"
    return None
@witness
def D6():
    from scoda.tokenisation.notelike_tokenisation import MultiTrackLargeVocabularyNotelikeTokeniser as Tk
    t = Tk(num_tracks=1, velocity_bins=130, pitch_range=(60, 61), note_values=[24])
    return None if t.dictionary_size == len(t.dictionary) else f"dictionary_size {t.dictionary_size} != entries {len(t.dictionary)}"
@witness
def D7():
    s = rseq(('on', 60), 24, ('off', 60))          # only rel fresh
    s.overwrite_absolute_messages(absl(('on', 0, 61), ('off', 12, 61)))
    try: s.abs; s.rel
    except Exception as e: return f"overwrite of the stale view leaves sequence unreadable: {e}"
    return None
@witness
def D8():
    a, b = rseq(('on', 60), 24, ('off', 60)), rseq(('on', 62), 24, ('off', 62))
    a.concatenate([b]); a.abs; b.transpose(1)
    va = canon_abs(a.abs); vr = canon_abs(a.rel.to_absolute_sequence())
    return None if va == vr else "a.concatenate([b]); b.transpose(1) -> a.abs and a.rel diverge (shared messages)"
@witness
def D8m():
    a, b = rseq(('on', 60), 24, ('off', 60)), rseq(('on', 62), 24, ('off', 62))
    a.merge([b]); before = canon_abs(a.abs); b.transpose(1); b.set_channel(5)
    a2 = canon_abs(a.rel.to_absolute_sequence())
    return None if before == a2 else "a.merge([b]); later edits of b change a (shared messages)"
@witness
def D9():
    s = rseq(('on', 60), 24, ('off', 60), 24); before = canon_abs(s.abs)
    p = s.split([12]); p[0].transpose(1)
    s2 = Sequence(relative_sequence=RelativeSequence(list(s.rel._messages)))
    return None if canon_abs(s2.abs) == before else "piece.transpose(1) changes the split source"
@witness
def D10():
    s = rseq(('off', 60), 24, ('on', 61), 24, ('off', 61)); s.normalise()
    offs = [m for m in s.rel._messages if m.message_type == MT.NOTE_OFF and m.note == 60]
    return "orphan NOTE_OFF kept by normalise" if offs else None
@witness
def D11():
    s = rseq(('on', 60), 24, ('on', 61), 24, ('off', 61)); s.normalise()
    ons = [m for m in s.rel._messages if m.message_type == MT.NOTE_ON and m.note == 60]
    return "unclosed NOTE_ON (pitch 60) kept by normalise" if ons else None
@witness
def D12():
    a = AbsoluteSequence(absl(('on', 0, 60, 0), ('on', 2, 60, 1), ('off', 24, 60, 0), ('off', 26, 60, 1)))
    s = Sequence(absolute_sequence=a); s.quantise([6])
    per = {}
    for m in s.abs._messages: per.setdefault((m.channel, m.note), []).append(m.message_type)
    ok = all(v == [MT.NOTE_ON, MT.NOTE_OFF] * (len(v) // 2) and len(v) % 2 == 0 for v in per.values())
    return None if ok else f"same pitch on two channels breaks pairing after quantise: { {k: [t.value for t in v] for k, v in per.items()} }"
@witness
def D13a():
    s = rseq(('on', 60, 0), 6, ('on', 60, 1), 12, ('off', 60, 0), 12, ('off', 60, 1), 6)
    pcs = s.split([12, 12])
    bad = []
    for p in pcs:
        op = set()
        for m in p.rel._messages:
            if m.message_type == MT.NOTE_ON: op.add((m.channel, m.note))
            elif m.message_type == MT.NOTE_OFF: op.discard((m.channel, m.note))
        if op: bad.append(sorted(op))
    return f"piece ends with sounding notes {bad} (same pitch on two channels)" if bad else None
@witness
def D13b():
    s = rseq(('on', 60), 12, ('off', 60), ('ks', Key.D))
    pcs = s.split([12])
    ks = [m for p in pcs for m in p.rel._messages if m.message_type == MT.KEY_SIGNATURE]
    return None if ks else "key signature on the final tick dropped by split([12])"
@witness
def D14():
    a = Sequence(absolute_sequence=AbsoluteSequence(absl(('on', 0, 60), ('off', 24, 60), ('int', 96))))
    b = Sequence(absolute_sequence=AbsoluteSequence(absl(('on', 24, 60), ('off', 48, 60), ('int', 96))))
    return "equals() is True for a note at tick 0 vs tick 24" if a.equals(b) else None
@witness
def D16():
    import tempfile
    s = Sequence()
    for m in absl(('on', 6, 60), ('off', 18, 60), ('on', 12, 60), ('off', 12, 60)): s.add_absolute_message(m)
    want = [(0, 60, 6, 6), (0, 60, 12, 6)]        # what get_message_pairings reports for the saved sequence
    have = sorted((c, p[0].note, p[0].time, p[1].time - p[0].time) for c, ps in s.abs.copy().get_message_pairings().items() for p in ps)
    if have != want: return f"pairing of saved sequence unexpected: {have}"
    with tempfile.TemporaryDirectory() as d:
        s.save(d + "/x.mid"); got = notes_of(Sequence.sequences_load(d + "/x.mid")[0])
    return None if got == want else f"save/load: saved notes {want}, loaded {got}"
@witness
def D17():
    a = AbsoluteSequence(absl(('on', 16, 60), ('on', 16, 61), ('off', 17, 60), ('off', 17, 61), ('cc', 18, 1, 1), ('cc', 30, 2, 2)))
    a.quantise([6])
    cc = [m for m in a._messages if m.message_type == MT.CONTROL_CHANGE]; nn = [m for m in a._messages if m.message_type in (MT.NOTE_ON, MT.NOTE_OFF)]
    return None if len(cc) == 2 and len(nn) % 2 == 0 and not nn else f"quantise removed wrong indices: kept {[(m.message_type.value, m.time, m.note) for m in a._messages]}"

@witness
def D18():
    from scoda.tokenisation.notelike_tokenisation import MultiTrackLargeVocabularyNotelikeTokeniser as Tk
    t = Tk(num_tracks=1, note_values=[8, 96])
    b1 = rseq(('ts', 4, 4), ('on', 60), 96, ('off', 60))        # a note filling the whole 4/4 bar
    b2 = rseq(('ts', 4, 4), 8, ('on', 62), 8, ('off', 62), 80)
    st = {}
    toks = t.tokenise([b1], state_dict=st) + t.tokenise([b2], state_dict=st)
    out = t.detokenise(toks)[0]
    got = notes_of(out)
    return None if (0, 62, 104, 8) in got else f"chunked tokenisation places the second bar's note wrongly: {got}"
@witness
def D19():
    import mido, tempfile
    mf = mido.MidiFile(); mf.ticks_per_beat = 120
    tr = mido.MidiTrack(); mf.tracks.append(tr)
    for m in (mido.Message('note_on', note=60, velocity=80, time=0), mido.Message('note_off', note=60, velocity=0, time=1),
              mido.Message('note_on', note=60, velocity=80, time=7), mido.Message('note_off', note=60, velocity=0, time=97)):
        tr.append(m)
    with tempfile.TemporaryDirectory() as d:
        mf.save(d + "/x.mid"); got = notes_of(Sequence.sequences_load(d + "/x.mid")[0])
    return None if (0, 60, 2, 19) in got else f"note [2,21) of the file is lost after a zero-length note of the same pitch: loaded {got}"
@witness
def D20():
    s = rseq(('on', 60), 24, ('off', 60), ('on', 62), 24, ('off', 62))
    for m in s.messages_abs():
        if m.message_type == MT.NOTE_OFF and m.note == 60: m.time = 72
    a = canon_abs(s.abs); r_ = canon_abs(s.rel.to_absolute_sequence())
    return None if a == r_ else "a time edit made while iterating messages_abs() makes the relative view disagree with the absolute one"


if __name__ == "__main__":
    sel = sys.argv[1:] or list(W)
    rc = 0
    for k in sel:
        try: r = W[k]()
        except Exception as e: r = f"raised {type(e).__name__}: {e}"
        print(f"{k} FAIL {r}" if r else f"{k} ok"); rc |= bool(r)
    sys.exit(rc)
