"""Closed terms of the real code: evaluated on every run by /venv/bin/python importing the modules
from the repository working tree (REPO), dumped as JSON.  Nothing here is copied by hand."""
import json, os, subprocess, sys

REPO = os.environ.get("REPO", "/repo")
PY = os.environ.get("SCODA_PY", "/venv/bin/python")

_DUMP = r'''
import sys, json, enum, logging
sys.path.insert(0, sys.argv[1]); logging.disable(logging.CRITICAL)
from scoda.settings import settings as S
from scoda.enumerations.message_type import MessageType
from scoda.enumerations.tokenisation_prefixes import TokenisationPrefixes
from scoda.misc import music_theory as M
from scoda.misc import util as U
from scoda.elements.message import Message
from scoda.tokenisation.notelike_tokenisation import MultiTrackLargeVocabularyNotelikeTokeniser as TK
def enc(x):
    if isinstance(x, enum.Enum): return {"enum": type(x).__name__, "name": x.name}
    if isinstance(x, (list, tuple)): return [enc(y) for y in x]
    if isinstance(x, dict): return {"dict": [[enc(k), enc(v)] for k, v in x.items()]}
    return x
out = {"settings": {k: enc(getattr(S, k)) for k in ("PPQN VELOCITY_MAX VELOCITY_BINS NOTE_LOWER_BOUND NOTE_UPPER_BOUND NOTE_VALUE_LOWER_BOUND NOTE_VALUE_UPPER_BOUND DOTTED_ITERATIONS VALID_TUPLETS DEFAULT_TIME_SIGNATURE_NUMERATOR DEFAULT_TIME_SIGNATURE_DENOMINATOR").split()},
  "enums": {c.__name__: [[m.name, enc(m.value) if not isinstance(m.value, enum.Enum) else m.value.name] for m in c] for c in (MessageType, TokenisationPrefixes, M.Note, M.Key)},
  "tables": {"CircleOfFifths.circle_of_fifths_order": enc(M.CircleOfFifths.circle_of_fifths_order),
             "MusicMapping.key_transpose_order": enc(M.MusicMapping.key_transpose_order),
             "MusicMapping.key_transpose_mapping": enc(M.MusicMapping.key_transpose_mapping),
             "MusicMapping.KeyKeyMapping": enc(M.MusicMapping.KeyKeyMapping),
             "MusicMapping.KeyNoteMapping": enc(M.MusicMapping.KeyNoteMapping),
             "MultiTrackLargeVocabularyNotelikeTokeniser.sort_order": enc(TK.sort_order)},
  "closed": {"get_default_step_sizes()": U.get_default_step_sizes(), "get_default_step_sizes(lower_bound_shift=1)": U.get_default_step_sizes(lower_bound_shift=1),
             "get_default_note_values()": U.get_default_note_values()},
  "message_defines_eq": any(n in Message.__dict__ for n in ("__eq__", "__hash__")),
  "mt_lt_is_index_order": all((a < b) == (i < j) for i, a in enumerate(MessageType) for j, b in enumerate(MessageType)),
}
print(json.dumps(out))
'''

_cache = {}
def load(repo=None):
    repo = repo or REPO
    if repo not in _cache:
        r = subprocess.run([PY, "-c", _DUMP, repo], capture_output=True, text=True)
        if r.returncode != 0:
            raise RuntimeError("cannot evaluate closed terms of the real modules:\n" + r.stderr[-2000:])
        _cache[repo] = json.loads(r.stdout.strip().splitlines()[-1])
    return _cache[repo]

if __name__ == "__main__":
    print(json.dumps(load(), indent=1)[:3000])
