"""Driver: verify one function under contract; returns plain (picklable) data."""
import ast
import json
import os
import subprocess
import tempfile
import time
import traceback
import z3
from . import consts as consts_mod
from .values import *
from .engine import Exec, Ctx, State, Contract, mk_heap, conjuncts
from .extract import Sources
from .specfns import SPEC

TIMEOUT_MS = int(os.environ.get("PYVC_TIMEOUT_MS", "20000"))
MAX_EXTERNAL = 4
MAX_SECOND = 300   # thorough tier: obligations per function (case) that are re-checked by cvc5 / z3 4.8 (evenly spaced sample when there are more)
MAX_FULL = 8       # obligations per function (case) that get the full third pass (retry at 4x budget, model search, second solvers)


def build_ctx(repo=None, consts=None):
    repo = repo or consts_mod.REPO
    consts = consts or consts_mod.load(repo)
    sources = Sources(repo)
    import importlib
    import sys
    here = os.path.dirname(os.path.dirname(os.path.abspath(__file__)))
    if here not in sys.path:
        sys.path.insert(0, here)
    C = importlib.import_module("contracts")
    ctx = Ctx(consts, C.SCHEMA, sources)
    ctx.specfuns = dict(SPEC)
    ctx.specfuns.update(getattr(C, "SPECFUNS", {}))
    ctx.method_names = sources.method_names()
    ctx.property_names = sources.property_names()
    ctx.contracts = dict(C.CONTRACTS)
    ctx.lemmas = dict(getattr(C, "LEMMAS", {}))
    # schema cross-check against the real __init__ (section 2.1): a changed field set makes users undecided
    ctx.schema_issues = []
    for cls, fields in C.SCHEMA.items():
        if cls in sources.classes:
            real = set(sources.init_fields(cls))
            allf = set()
            for c in ctx.mro(cls):
                allf |= set(C.SCHEMA.get(c, {})) - {"__tuple__"}
            if real and real != allf:
                ctx.schema_issues.append(f"{cls}: real fields {sorted(real)} != schema {sorted(allf)}")
    return ctx


def fresh_param(X, st, name, t):
    base, arg, opt = parse_type(t)
    none = fresh(name + "_isnone", B) if opt else None
    if base == "int":
        return Num(fresh(name), none=none)
    if base == "real":
        return Num(fresh(name, R), none=none, real=True)
    if base == "bool":
        return BoolV(fresh(name, B), none=none)
    if base == "enum":
        v = fresh(name)
        st.pc.append(z3.And(0 <= v, v < len(X.ctx.enums[arg])))
        return EnumV(v, arg, none=none)
    if base == "ref":
        v = fresh(name)
        a = st.heap["@alloc"][v]
        st.pc.append(z3.Implies(z3.Not(none), a) if none is not None else a)
        return Ref(v, arg, none=none)
    if base == "dict":
        ent = {}
        for k_ in arg.split(","):
            ent[k_] = (fresh(f"{name}_has_{k_}", B), Num(fresh(f"{name}_{k_}")))
        return DictObj(ent, none=none)
    if base == "list":
        v = fresh(name)
        a = z3.And(st.heap["@alloc"][v], st.heap["@len"][v] >= 0)
        st.pc.append(z3.Implies(z3.Not(none), a) if none is not None else a)
        eb, ea, _ = parse_type(arg)
        if eb in ("ref", "list"):
            k = fresh("k")
            el = st.heap["@el"][v][k]
            st.pc.append(z3.ForAll([k], z3.Implies(z3.And(0 <= k, k < st.heap["@len"][v]), st.heap["@alloc"][el]), patterns=[st.heap["@el"][v][k]]))
        return ListV(v, arg, none=none)
    raise VCError(f"parameter type {t}")


def decode(model, heap, v, ctx, seen, depth=0):
    """model value of an input (entry heap) as JSON-able data"""
    def ev(t):
        return model.eval(t, model_completion=True)
    if isinstance(v, NoneV):
        return None
    if v.none is not None and z3.is_true(ev(v.none)):
        return None
    if isinstance(v, Num):
        if v.inf is not None and z3.is_true(ev(v.inf)):
            return "inf"
        x = ev(v.v)
        if v.real:
            return float(x.as_fraction()) if z3.is_rational_value(x) else str(x)
        return x.as_long() if z3.is_int_value(x) else str(x)
    if isinstance(v, BoolV):
        return bool(z3.is_true(ev(v.v)))
    if isinstance(v, EnumV):
        x = ev(v.v)
        i = x.as_long() if z3.is_int_value(x) else 0
        names = ctx.enums[v.enum]
        return {"enum": v.enum, "name": names[i] if 0 <= i < len(names) else f"?{i}"}
    if isinstance(v, Ref):
        x = ev(v.v)
        rid = x.as_long() if z3.is_int_value(x) else str(x)
        if (rid, "o") in seen or depth > 6:
            return {"ref": rid}
        seen.add((rid, "o"))
        out = {"ref": rid, "cls": v.cls, "fields": {}}
        for c in ctx.mro(v.cls):
            for f, t in ctx.schema.get(c, {}).items():
                if f in out["fields"]:
                    continue
                b, a, opt = parse_type(t)
                fv = wrap(heap[f][x], t, heap[f + "?"][x] if opt else None)
                out["fields"][f] = decode(model, heap, fv, ctx, seen, depth + 1)
        return out
    if isinstance(v, ListV):
        x = ev(v.v)
        n = ev(heap["@len"][x])
        n = n.as_long() if z3.is_int_value(n) else 0
        n = max(0, min(n, 12))
        return {"list": [decode(model, heap, wrap(heap["@el"][x][k], v.elem), ctx, seen, depth + 1) for k in range(n)]}
    if isinstance(v, (TupleV, ConstList)):
        return [decode(model, heap, x, ctx, seen, depth + 1) for x in v.items]
    if isinstance(v, StrV):
        return repr(v)
    return None


class Slot:
    """machine-wide limit on concurrently running solver calls (one per core): solver budgets are wall-clock, so verdicts must not
    depend on how many checks happen to run side by side.  Slots are lock files, created on demand."""
    DIR = os.environ.get("PYVC_SLOT_DIR", "/tmp/pyvc-slots")
    N = int(os.environ.get("PYVC_SLOTS", str(os.cpu_count() or 8)))

    def __enter__(self):
        import fcntl
        os.makedirs(self.DIR, exist_ok=True)
        start = os.getpid() % self.N
        while True:
            for k in range(self.N):
                path = os.path.join(self.DIR, f"slot{(start + k) % self.N}")
                try:
                    fd = os.open(path, os.O_CREAT | os.O_RDWR, 0o666)
                except OSError:
                    continue
                try:
                    fcntl.flock(fd, fcntl.LOCK_EX | fcntl.LOCK_NB)
                    self.fd = fd
                    return self
                except OSError:
                    os.close(fd)
            time.sleep(0.02)

    def __exit__(self, *a):
        import fcntl
        try:
            fcntl.flock(self.fd, fcntl.LOCK_UN)
        finally:
            os.close(self.fd)
        return False


def solve(ob, want_model=None, timeout_ms=None, relax=False):
    """relax=True (model search only): quantified assumptions are dropped; any model found is only a *candidate*
    input that must be confirmed by replay on the real code"""
    t0 = time.time()
    if z3.is_true(ob.goal):
        return "unsat", 0.0, None, "closed"
    s = z3.Solver()
    s.set("timeout", timeout_ms or TIMEOUT_MS)
    if relax:
        from .engine import _has_quant
        s.add(*[a for a in ob.assumptions if not _has_quant(a)])
    else:
        light = getattr(ob, "light", None)
        if light is not None:
            s2 = z3.Solver()
            s2.set("timeout", min(2000, timeout_ms or TIMEOUT_MS))
            s2.add(*light)
            s2.add(z3.Not(ob.goal))
            with Slot():
                r2 = s2.check()
            if r2 == z3.unsat:
                return "unsat", time.time() - t0, None, "z3"
        s.add(*ob.assumptions)
    s.add(z3.Not(ob.goal))
    with Slot():
        r = s.check()
    if r == z3.unknown and not relax and timeout_ms is None and _retry_budget[0] > 0:
        _retry_budget[0] -= 1
        # a timeout under load must not flip a verdict: one retry with four times the budget on a fresh solver
        s = z3.Solver()
        s.set("timeout", 4 * TIMEOUT_MS)
        s.set("random_seed", 7)
        s.add(*ob.assumptions)
        s.add(z3.Not(ob.goal))
        with Slot():
            r = s.check()
    model = None
    if r == z3.sat and want_model:
        try:
            model = want_model(s.model())
        except Exception as e:  # model decoding must never turn into a verdict
            model = {"decode_error": repr(e)}
    res = "unsat" if r == z3.unsat else ("sat" if r == z3.sat else "unknown")
    return res, time.time() - t0, model, "z3"


_retry_budget = [6]     # per function (reset in _verify): a changed tree with many unknowns must not take hours


def presolve(obls, threads=None, timeout_s=None, only=None):
    """first pass over all obligations of a function in parallel: each VC is written as SMT-LIB text and given to the z3 5.1 CLI
    (same solver as the API); only `unsat` answers are kept, everything else goes through solve() afterwards"""
    import concurrent.futures as cf
    import shutil
    exe = shutil.which("z3-new")
    if exe is None or (only is not None and len(only) < 4):
        return {}
    threads = threads or int(os.environ.get("PYVC_THREADS", "8"))
    timeout_s = timeout_s or max(2, (TIMEOUT_MS + 999) // 1000)
    texts = {}
    for i, ob in enumerate(obls):
        if z3.is_true(ob.goal) or (only is not None and i not in only):
            continue
        try:
            texts[i] = smt2_of(ob)
        except Exception:
            pass

    def run(i):
        t0 = time.time()
        try:
            with Slot():
                t0 = time.time()
                r = subprocess.run([exe, "-in", f"-T:{timeout_s}"], input=texts[i], capture_output=True, text=True, timeout=timeout_s + 10)
            ans = (r.stdout.strip().splitlines() or ["unknown"])[0].strip()
        except Exception:
            ans = "unknown"
        return i, ans, time.time() - t0
    out = {}
    with cf.ThreadPoolExecutor(max_workers=threads) as ex:
        for i, ans, dt in ex.map(run, list(texts)):
            if ans == "unsat":
                out[i] = dt
    return out


def smt2_of(ob):
    s = z3.Solver()
    s.add(*ob.assumptions)
    s.add(z3.Not(ob.goal))
    return s.to_smt2()


def external(ob, timeout=12):
    """second opinion: cvc5 and the z3 CLIs on the SMT-LIB2 text"""
    txt = smt2_of(ob)
    with tempfile.NamedTemporaryFile("w", suffix=".smt2", delete=False) as f:
        f.write(txt)
        p = f.name
    out = []
    try:
        for name, cmd in (("cvc5", ["/usr/bin/cvc5", "--tlimit=%d" % (timeout * 1000), p]), ("z3-4.8", ["/usr/bin/z3", "-T:%d" % timeout, p])):
            try:
                with Slot():
                    r = subprocess.run(cmd, capture_output=True, text=True, timeout=timeout + 5)
                ans = (r.stdout.strip().splitlines() or ["unknown"])[0].strip()
            except Exception:
                ans = "unknown"
            out.append((name, ans if ans in ("sat", "unsat") else "unknown"))
            if ans == "unsat":
                break
    finally:
        os.unlink(p)
    return out


def verify(qual, repo=None, ctx=None, bound=None, second_solver=False, fast=False):
    """verifies `qual`; a contract with `cases` is verified once per case and the results are merged"""
    try:
        ctx = ctx or build_ctx(repo)
    except Exception as e:
        return {"qual": qual, "obligations": [], "status": "error", "error": repr(e), "wall_s": 0, "notes": []}
    C = ctx.contracts.get(qual)
    if C is None or not C.cases:
        return _verify(qual, repo, ctx, bound, second_solver, fast, None)
    merged = None
    rank = {"ok": 0, "undecided": 1, "refuted": 2, "error": 3}
    for ci, case in enumerate(list(C.cases) + ["__exhaustive__"]):
        r = _verify(qual, repo, ctx, bound, second_solver, fast, (ci, case))
        if merged is None:
            merged = r
        else:
            merged["obligations"] += r["obligations"]
            merged["wall_s"] = round(merged["wall_s"] + r["wall_s"], 3)
            if rank[r["status"]] > rank[merged["status"]]:
                merged["status"] = r["status"]
                merged["error"] = r.get("error")
            for k in ("notes", "inlined", "callee_contracts"):
                merged[k] = sorted(set(merged.get(k, [])) | set(r.get(k, [])))
    return merged


_DECLS_CACHE = {}


def _decl_names(t):
    """names of the uninterpreted constants / functions occurring in a term (cached by AST id)"""
    k = t.get_id()
    if k in _DECLS_CACHE:
        return _DECLS_CACHE[k]
    out, stack, seen = set(), [t], set()
    while stack:
        x = stack.pop()
        if x.get_id() in seen:
            continue
        seen.add(x.get_id())
        if z3.is_quantifier(x):
            stack.append(x.body())
            continue
        if z3.is_app(x):
            if x.decl().kind() == z3.Z3_OP_UNINTERPRETED:
                out.add(x.decl().name())
            stack.extend(x.children())
    _DECLS_CACHE[k] = out
    return out


def _prune_typing(obls):
    """relevance filter (sound: it only DROPS assumptions): a heap-typing axiom (bound variable o!ht) is kept for an obligation only if
    every FIELD array it mentions also occurs in the goal or in some assumption that is not a typing axiom"""
    for ob in obls:
        typing, rest = [], []
        for a in ob.assumptions:
            if z3.is_quantifier(a) and a.num_vars() >= 1 and a.var_name(0) == "o!ht":
                typing.append(a)
            else:
                rest.append(a)
        if not typing:
            continue
        used = set(_decl_names(ob.goal))
        for a in rest:
            used |= _decl_names(a)
        keep = []
        for a in typing:
            names = _decl_names(a)
            fields = {n for n in names if not n.startswith(("H_len", "Hlen", "H_el", "Hel", "H_alloc", "Halloc"))}
            # the FIELD arrays of the axiom must be relevant; the list / allocation arrays it mentions need not occur elsewhere
            if (fields and fields <= used) or (not fields and names & used):
                keep.append(a)
        ob.assumptions = rest + keep


def _verify(qual, repo, ctx, bound, second_solver, fast, case):
    """returns dict(qual, status, obligations=[...], ...).  status: ok | refuted | undecided | error"""
    t_start = time.time()
    out = {"qual": qual, "obligations": [], "status": "ok", "notes": [], "inlined": [], "callee_contracts": [], "bound": bound}
    try:
        C = ctx.contracts.get(qual)
        if C is None:
            raise VCError(f"no contract for {qual}")
        fn, file = ctx.sources.find(qual.split("#")[0])
        if fn is None:
            raise VCError(f"function {qual} not found in the repository")
        out["file"], out["file_sha256"], out["ast_hash"] = file, ctx.sources.files[file], Sources.ast_hash(fn)
        out["props"] = C.props
        if ctx.schema_issues:
            users = [i for i in ctx.schema_issues]
            raise VCError("schema mismatch: " + "; ".join(users))
        X = Exec(ctx, qual, C)
        heap = mk_heap(ctx)
        st = State({}, heap, [], {})
        from .engine import heap_typing, TDIV, TDIV2
        st.pc += heap_typing(ctx, heap)
        _a, _b, _c, _d = z3.Ints("a!td b!td c!td d!td")
        tdiv_ax = []      # facts about the truncating quotient: only given to obligations that mention it (nonlinear axioms slow everything else down)
        tdiv_ax.append(z3.ForAll([_a, _d], z3.Implies(z3.And(_a >= 0, _d > 0), TDIV(_a, _d) >= 0), patterns=[TDIV(_a, _d)]))
        tdiv_ax.append(z3.ForAll([_a, _b, _c, _d], z3.Implies(z3.And(_a >= 0, _b >= 0, _c >= 0, _d > 0), TDIV2(_a, _b, _c, _d) >= 0), patterns=[TDIV2(_a, _b, _c, _d)]))
        # exact quotients (definition of truncation when the division leaves no remainder)
        tdiv_ax.append(z3.ForAll([_a, _d], z3.Implies(z3.And(_d > 0, _a % _d == 0), TDIV(_a, _d) == _a / _d), patterns=[TDIV(_a, _d)]))
        tdiv_ax.append(z3.ForAll([_a, _b, _c, _d], z3.Implies(z3.And(_d > 0, (_a * _b) % _d == 0), TDIV2(_a, _b, _c, _d) == ((_a * _b) / _d) * _c), patterns=[TDIV2(_a, _b, _c, _d)]))
        tdiv_ax.append(z3.ForAll([_a, _b, _c, _d], z3.Implies(z3.And(_d > 0, (_a * _c) % _d == 0), TDIV2(_a, _b, _c, _d) == ((_a * _c) / _d) * _b), patterns=[TDIV2(_a, _b, _c, _d)]))
        cls = qual.split(".")[0] if qual.split(".")[0] in ctx.sources.classes else None
        st.meta["cls"] = cls
        params = [a.arg for a in fn.args.args] + [a.arg for a in fn.args.kwonlyargs]
        for p in params:
            if p not in C.params:
                raise VCError(f"parameter {p} of {qual} has no type in the contract")
        inputs = {}
        for p in params:
            v = fresh_param(X, st, p, C.params[p])
            if bound is not None and isinstance(v, ListV):
                st.pc.append(heap["@len"][v.v] == bound)
            st.env[p] = v
            inputs[p] = v
        for g, t in C.ghost.items():
            st.env[g] = fresh_param(X, st, g, t)
            inputs[g] = st.env[g]
        if bound is not None:
            st.meta["bound"] = bound + 3
        entry_env, entry_heap = dict(st.env), dict(heap)
        st.meta["old_heap"], st.meta["old_env"] = entry_heap, entry_env
        for r in C.requires:
            st.pc.append(X.truth(X.spec_ev(r, st), st))
        tag = ""
        if case is not None and case[1] == "__exhaustive__":
            X.cur_line = None
            g = z3.Or([X.truth(X.spec_ev(c, st), st) for c in C.cases])
            X.oblige("cases-exhaustive", st, g, "cases", text=" or ".join(C.cases))
            exits = []
            res, dt, model, backend = solve(X.obls[0])
            out["obligations"].append({"name": f"{qual}::cases-exhaustive", "kind": "cases", "line": None, "result": res, "time_s": round(dt, 4), "backend": backend, "text": " or ".join(C.cases)})
            out["status"] = "ok" if res == "unsat" else ("refuted" if res == "sat" else "undecided")
            out["wall_s"] = round(time.time() - t_start, 3)
            return out
        if case is not None:
            st.pc.append(X.truth(X.spec_ev(case[1], st), st))
            tag = f"::case{case[0]}"
        for lname, inst in C.lemmas:
            if lname not in ctx.lemmas:
                raise VCError(f"contract uses unknown lemma {lname}")
            st.pc.append(X.truth(X.spec_ev(inst, st), st))
            X.notes.append(f"L: instance of lemma {lname} ({inst}) used at entry; the lemma has its own obligations")
        X.local_defs = {n.name: n for n in fn.body if isinstance(n, ast.FunctionDef)}
        X.loop_prefix = ""
        X.loop_names = X.name_loops(fn)
        X.readonly_params = Exec.readonly_list_params(fn)
        for p_ in X.readonly_params:
            v_ = st.env.get(p_)
            if isinstance(v_, ListV) and parse_type(v_.elem)[0] in ("tok", "int"):
                fz = ListV(v_.v, v_.elem, v_.none)
                fz.frozen_heap = entry_heap           # read-only parameter list of scalars: all reads see its entry content
                st.env[p_] = fz
                entry_env[p_] = fz
                X.notes.append(f"A: parameter list `{p_}` is read-only in {qual} (checked syntactically: never mutated, assigned, stored or passed to a call)")
        X.frozen_locals = Exec.frozen_list_locals(fn)
        X.private_locals = Exec.private_list_locals(fn)
        X.private_lists = Exec.dict_separate_locals(fn)
        X.fn_node = fn
        pre_pc = list(st.pc)
        exits = X.block(fn.body, st)
        n_normal = 0
        for n_, (k, t, v) in enumerate(exits):
            X.cur_line = None
            if k in ("n", "r"):
                n_normal += 1
                env = dict(entry_env)
                res = v if k == "r" else NONE
                if C.result and isinstance(res, NoneV):
                    # implicit/explicit `return None` where the contract declares a typed result
                    res = wrap(fresh("none_result", sort_of(C.result)), C.result.rstrip("?") + "?", TRUE)
                env["result"] = res
                pst = State(env, t.heap, t.pc, {"old_heap": entry_heap, "old_env": entry_env, "bound": st.meta.get("bound"), "callres": t.meta.get("callres", {})})
                for nm, e in C.ensures:
                    for ci, cj in enumerate(conjuncts(e)):
                        nm2 = nm if len(conjuncts(e)) == 1 else f"{nm}.{ci}"
                        g = X.truth(X.spec_ev(cj, pst), pst)
                        X.oblige(f"post[{nm2}]::exit{n_}", pst, g, "post", text=cj)
                for f in sorted(t.heap):
                    if f.endswith("?") or f in ("@el", "@alloc"):
                        continue
                    changed = not t.heap[f].eq(entry_heap[f]) or (f + "?" in t.heap and not t.heap[f + "?"].eq(entry_heap[f + "?"]))
                    if f == "@len":
                        changed = changed or not t.heap["@el"].eq(entry_heap["@el"])
                        f = "@lists"
                    if changed:
                        g = X.truth(X.spec_ev(f"__frame__('{f}')", pst), pst)
                        X.oblige(f"frame[{f}]::exit{n_}", pst, g, "frame", text=f"only {C.modifies.get(f, 'nothing')} may change in field {f}")
            elif k == "x":
                pst = State(dict(entry_env), t.heap, t.pc, {"old_heap": entry_heap, "old_env": entry_env})
                if v in C.raises:
                    old = State(dict(entry_env), dict(entry_heap), t.pc, dict(pst.meta))
                    g = X.truth(X.spec_ev(C.raises[v], old), old)
                    X.oblige(f"raises[{v}]::exit{n_}", pst, g, "raises", text=f"{v} only when {C.raises[v]}")
                else:
                    X.oblige(f"raises[{v}]::exit{n_}", pst, FALSE, "raises", text=f"{v} is not allowed by the contract")
            else:
                raise VCError("break/continue at function level")
        missing = [nm for nm, _, _ in C.asserts if nm not in getattr(X, "anchors_hit", set())] + ["lemma:" + l for l, _, _ in C.lemma_at if "lemma:" + l not in getattr(X, "anchors_hit", set())]
        if missing:
            raise VCError(f"assertion anchors not found in the code: {missing}")
        out["exits"] = len(exits)
        out["normal_exits"] = n_normal
        out["inlined"] = sorted(X.inlined)
        out["callee_contracts"] = sorted(X.used_contracts)
        out["notes"] = sorted(set(X.notes))
        out["loops"] = X.loop_counter
        # vacuity: the precondition must be satisfiable and at least one exit reachable
        s = z3.Solver()
        s.set("timeout", 1500)     # sat-side query with quantifiers: `unknown` is common and accepted (non-vacuity is
        s.add(*pre_pc)             # additionally witnessed by the concrete executions of the bounded tier)
        r = s.check()
        out["cover_pre"] = str(r)
        if r == z3.unsat:
            out["status"] = "error"
            out["error"] = "precondition unsatisfiable (vacuous contract)"
            return out
        if not exits:
            out["status"] = "error"
            out["error"] = "no feasible exit (vacuous)"
            return out

        def mk_decoder(ob):
            def dec(m):
                seen = set()
                return {p: decode(m, entry_heap, v, ctx, seen) for p, v in inputs.items()}
            return dec
        n_obl = 0
        n_ext = 0
        _retry_budget[0] = 6
        from .engine import _mentions
        if os.environ.get("PYVC_PRUNE_TYPING"):      # experimental relevance filter (off: it made some obligations undecidable)
            _prune_typing(X.obls)
        for ob in X.obls:
            if _mentions(ob.goal, "tdiv") or any(_mentions(a_, "tdiv") for a_ in ob.assumptions):
                ob.assumptions = list(ob.assumptions) + tdiv_ax
        # pass 1: every obligation with a short budget in-process; pass 2: what is left, in parallel through the z3 CLI with the
        # full budget; pass 3 (below): what is still left, in-process with retry, model extraction and the second solvers
        quick, pre, pre_tried = {}, {}, set()
        if not fast and not os.environ.get("PYVC_NO_PRESOLVE"):
            for oi, ob in enumerate(X.obls):
                r1 = solve(ob, None, 1200, relax=False)
                if r1[0] == "unsat":
                    quick[oi] = r1
            pre_tried = {oi for oi in range(len(X.obls)) if oi not in quick}
            pre = presolve(X.obls, only=pre_tried)
            if len(pre_tried) < 4:
                pre_tried = set()
        n_full = 0
        tried_cli = bool(quick or pre) or (not fast and not os.environ.get("PYVC_NO_PRESOLVE"))
        for oi, ob in enumerate(X.obls):
            if oi in quick:
                res, dt, model, backend = quick[oi]
            elif oi in pre:
                res, dt, model, backend = "unsat", pre[oi], None, "z3-cli"
            elif tried_cli and n_full >= MAX_FULL and oi in pre_tried:
                # many obligations of this function are already undecided after two passes: the rest keep the verdict of pass 2
                res, dt, model, backend = "unknown", float(TIMEOUT_MS) / 1000, None, "z3-cli"
            else:
                n_full += 1
                res, dt, model, backend = solve(ob, mk_decoder(ob), 1500 if fast else None, relax=fast)
            others = []
            if fast:
                pass
            elif (res == "unknown" and n_ext < MAX_EXTERNAL) or (res == "unsat" and second_solver and backend != "closed" and oi % max(1, len(X.obls) // MAX_SECOND) == 0):
                n_ext += res == "unknown"
                others = external(ob)
                if res == "unknown":
                    for nm, a in others:
                        if a in ("sat", "unsat"):
                            res, backend = a, nm
                            break
                elif any(a == "sat" for _, a in others):
                    res = "unknown"      # solvers disagree: undecided
            n_obl += 1
            rec = {"name": f"{qual}::{ob.name}{tag}", "kind": ob.kind, "line": ob.line, "result": res, "time_s": round(dt, 4), "backend": backend, "text": ob.text}
            if others:
                rec["second"] = others
            if res == "sat":
                rec["model"] = model
                out["status"] = "refuted"
            elif res == "unknown" and out["status"] == "ok":
                out["status"] = "undecided"
            if n_obl <= 2 or res != "unsat":
                try:
                    rec["smt2_head"] = smt2_of(ob)[-600:] if res == "unsat" else None
                except Exception:
                    pass
            out["obligations"].append(rec)
        if not out["obligations"]:
            out["status"] = "error"
            out["error"] = "zero obligations generated"
    except VCError as e:
        out["status"] = "undecided"
        out["error"] = f"out of reach: {e}"
    except Exception as e:
        out["status"] = "error"
        out["error"] = "".join(traceback.format_exception_only(type(e), e)).strip() + "\n" + traceback.format_exc()[-1500:]
    out["wall_s"] = round(time.time() - t_start, 3)
    return out


def _worker(args):
    qual, repo, kw, case = args
    if case is None:
        return verify(qual, repo, **kw)
    ctx = build_ctx(repo)
    return _verify(qual, repo, ctx, kw.get("bound"), kw.get("second_solver", False), kw.get("fast", False), case)


def _merge(parts):
    rank = {"ok": 0, "undecided": 1, "refuted": 2, "error": 3}
    merged = None
    for r in parts:
        if merged is None:
            merged = r
            continue
        merged["obligations"] += r["obligations"]
        merged["wall_s"] = round(merged["wall_s"] + r["wall_s"], 3)
        if rank[r["status"]] > rank[merged["status"]]:
            merged["status"] = r["status"]
            merged["error"] = r.get("error")
        for k in ("notes", "inlined", "callee_contracts"):
            merged[k] = sorted(set(merged.get(k, [])) | set(r.get(k, [])))
    return merged


def verify_many(quals, repo=None, procs=None, **kw):
    """functions (and the cases of case-split contracts) are verified in parallel worker processes"""
    import multiprocessing as mp
    consts_mod.load(repo or consts_mod.REPO)
    ctx = build_ctx(repo)
    tasks = []
    for q in quals:
        C = ctx.contracts.get(q)
        if C is not None and C.cases:
            for ci, case in enumerate(list(C.cases) + ["__exhaustive__"]):
                tasks.append((q, repo, kw, (ci, case)))
        else:
            tasks.append((q, repo, kw, None))
    procs = procs or min(len(tasks), os.cpu_count() or 4)
    if procs <= 1 or len(tasks) == 1:
        return [verify(q, repo, ctx=ctx, **kw) for q in quals]
    with mp.get_context("fork").Pool(procs) as pool:
        res = pool.map(_worker, tasks, chunksize=1)
    out = []
    for q in quals:
        out.append(_merge([r for t, r in zip(tasks, res) if t[0] == q]))
    return out
