"""Mechanical extraction of the real functions from the repository working tree, on every run.
Drops (and only drops): docstrings, annotations, LOGGER.* calls, __future__/TYPE_CHECKING imports."""
import ast
import hashlib
import os


class Sources:
    def __init__(self, repo):
        self.repo = repo
        self.classes = {}     # name -> dict(bases, methods{name: FunctionDef}, file, node)
        self.functions = {}   # module-level function name -> FunctionDef
        self.func_file = {}
        self.files = {}       # relpath -> sha256
        self.trees = {}
        root = os.path.join(repo, "scoda")
        for dp, dn, fn in os.walk(root):
            for f in sorted(fn):
                if not f.endswith(".py"):
                    continue
                p = os.path.join(dp, f)
                rel = os.path.relpath(p, repo)
                src = open(p).read()
                self.files[rel] = hashlib.sha256(src.encode()).hexdigest()
                try:
                    tree = ast.parse(src)
                except SyntaxError as e:
                    raise RuntimeError(f"{rel} does not parse: {e}")
                self.trees[rel] = tree
                for n in tree.body:
                    if isinstance(n, ast.ClassDef):
                        bases = [b.id if isinstance(b, ast.Name) else (b.attr if isinstance(b, ast.Attribute) else "?") for b in n.bases]
                        self.classes[n.name] = {"bases": bases, "file": rel, "node": n,
                                                "methods": {m.name: m for m in n.body if isinstance(m, ast.FunctionDef)}}
                    elif isinstance(n, ast.FunctionDef):
                        self.functions[n.name] = n
                        self.func_file[n.name] = rel

    def find(self, qual):
        """qual: 'Class.method', 'function', or 'Class.method.inner'"""
        parts = qual.split(".")
        if parts[0] in self.classes:
            info = self.classes[parts[0]]
            node = info["methods"].get(parts[1]) if len(parts) > 1 else info["node"]
            if node is None:
                return None, None
            for p in parts[2:]:
                node = next((n for n in ast.walk(node) if isinstance(n, ast.FunctionDef) and n.name == p), None)
                if node is None:
                    return None, None
            return node, info["file"]
        if parts[0] in self.functions and len(parts) == 1:
            return self.functions[parts[0]], self.func_file[parts[0]]
        return None, None

    @staticmethod
    def ast_hash(node):
        return hashlib.sha256(ast.dump(node).encode()).hexdigest()[:16]

    def init_fields(self, cls):
        """attribute names assigned on self in the real __init__ chain"""
        out = []
        seen = set()
        c = cls
        while c in self.classes:
            init = self.classes[c]["methods"].get("__init__")
            if init:
                for n in ast.walk(init):
                    if isinstance(n, ast.Attribute) and isinstance(n.ctx, ast.Store) and isinstance(n.value, ast.Name) and n.value.id == "self":
                        if n.attr not in seen:
                            seen.add(n.attr)
                            out.append(n.attr)
            bases = self.classes[c]["bases"]
            c = bases[0] if bases else None
        return out

    def method_names(self):
        s = set()
        for c in self.classes.values():
            s |= set(c["methods"])
        return s

    def property_names(self):
        s = set()
        for c in self.classes.values():
            for m in c["methods"].values():
                if any(isinstance(d, ast.Name) and d.id == "property" for d in m.decorator_list):
                    s.add(m.name)
        return s
