"""C11 tag layer: a modular type-tag analysis (int / float / none) over ALL of scoda/ -- every place where a tick value is
produced is an obligation `tag@file:line` ("the value written is int-tagged"), discharged by abstract evaluation in the finite
tag lattice with per-function parameter/result tag contracts (checked at every call site, like any other precondition).

Tags: 'int', 'float', 'none', 'bool', 'str', 'obj', and sets thereof; TOP = unknown (obligation undecided, never a violation).
Python facts assumed (A): `/` and float() yield float; `//`, `%`, int(), round(x), len(), abs() of int, +,-,* of ints yield int;
int op float yields float; min/max/`a if c else b` yield one of their arguments."""
import ast
import os

INT, FLOAT, NONE, BOOL, OTHER = "int", "float", "none", "bool", "other"
TOP = frozenset({"?"})


def T(*xs):
    return frozenset(xs)


def join(a, b):
    if a is None:
        return b
    if b is None:
        return a
    if "?" in a or "?" in b:
        return TOP
    return a | b


def num_op(a, b, op):
    if "?" in a or "?" in b:
        return TOP
    a, b = a - {NONE}, b - {NONE}         # arithmetic on None is a safety obligation of the value layer, not a tag
    if a and b and a <= LISTS and b <= LISTS and isinstance(op, ast.Add):
        return join_lists(a, b)
    out = set()
    for x in a:
        for y in b:
            if x in (OTHER,) or y in (OTHER,) or x in LISTS or y in LISTS or x in (BOOL, "str") and False:
                out.add(OTHER)       # would raise / list concatenation etc.: not a tick
            elif isinstance(op, ast.Div):
                out.add(FLOAT)
            elif FLOAT in (x, y):
                out.add(FLOAT)
            else:
                out.add(INT)
    return frozenset(out)


LISTS = frozenset({"list_int", "list_empty", "list_obj", "list_float"})


def join_lists(a, b):
    u = (a | b) - {"list_empty"}
    return frozenset(u) if u else T("list_empty")


def list_of(t):
    if t == TOP or "?" in t:
        return TOP
    if t <= T(INT):
        return T("list_int")
    if FLOAT in t:
        return T("list_float")
    return T("list_obj")


# parameter / result tag contracts (sidecar; the tick-carrying interfaces of the library).  'ticks' = int-tagged.
PARAM_TAGS = {
    "RelativeSequence.pad": {"padding_length": T(INT)},
    "Sequence.pad": {"padding_length": T(INT)},
    "AbsoluteSequence.cutoff": {"maximum_length": T(INT), "reduced_length": T(INT)},
    "Sequence.cutoff": {"maximum_length": T(INT), "reduced_length": T(INT)},
    "AbsoluteSequence.quantise_note_lengths": {"standard_length": T(INT), "note_values": T(NONE, "list_int")},
    "Sequence.quantise_note_lengths": {"standard_length": T(INT), "note_values": T(NONE, "list_int")},
    "Sequence.quantise_and_normalise": {"standard_length": T(INT), "note_values": T(NONE, "list_int"), "step_sizes": T(NONE, "list_int")},
    "AbsoluteSequence.get_message_pairings": {"standard_length": T(INT)},
    "AbsoluteSequence.get_interleaved_message_pairings": {"standard_length": T(INT)},
    "Sequence.get_message_pairings": {"standard_length": T(INT)},
    "Sequence.get_interleaved_message_pairings": {"standard_length": T(INT)},
    "AbsoluteSequence.quantise": {"step_sizes": T(NONE, "list_int")},
    "Sequence.quantise": {"step_sizes": T(NONE, "list_int")},
    "RelativeSequence.split": {"capacities": T("list_int")},
    "Sequence.split": {"capacities": T("list_int")},
    "RelativeSequence.scale": {"factor": T(INT)},           # the property covers integer scaling
    "Sequence.scale": {"factor": T(INT)},
    "find_minimal_distance": {"element": T(INT), "collection": T("list_int")},
    "get_note_durations": {"upper_bound_multiplier": T(INT), "lower_bound_divisor": T(INT), "base_value": T(INT)},
    "get_tuplet_durations": {"note_durations": T("list_int"), "ratio_numerator": T(INT), "ratio_denominator": T(INT)},
    "get_dotted_note_durations": {"note_durations": T("list_int"), "dotted_iterations": T(INT)},
    "Bar.__init__": {"numerator": T(INT), "denominator": T(INT)},
    "get_default_step_sizes": {"upper_bound_shift": T(INT), "lower_bound_shift": T(INT)},
    "Message.__init__": {"time": T(INT, NONE)}, "MidiMessage.__init__": {"time": T(INT, NONE)},
    "MultiTrackLargeVocabularyNotelikeTokeniser.__init__": {"ppqn": T(INT, NONE), "step_sizes": T(NONE, "list_int"), "note_values": T(NONE, "list_int"), "velocity_bins": T(INT)},
}
RESULT_TAGS = {
    "RelativeSequence.get_sequence_duration_relation": T(FLOAT), "Sequence.get_sequence_duration_relation": T(FLOAT),
    "AbsoluteSequence.get_sequence_duration": T(INT), "Sequence.get_sequence_duration": T(INT),
    "find_minimal_distance": T(INT), "bin_velocity": T(INT), "velocity_from_bin": T(INT),
    "get_default_step_sizes": T("list_int"), "get_default_note_values": T("list_int"), "get_note_durations": T("list_int"),
    "get_tuplet_durations": T("list_int"), "get_dotted_note_durations": T("list_int"), "get_velocity_bins": T("list_int"),
    "CircleOfFifths.get_position": T(INT), "CircleOfFifths.get_distance": T(INT), "CircleOfFifths.from_distance": T(INT),
}
# fields that hold ticks / integers by the invariant ticks_int (assumed on entry, obligations on every write)
INT_FIELDS = {"time", "note", "velocity", "channel", "numerator", "denominator", "control", "program", "ppqn", "num_tracks", "time_signature_numerator", "time_signature_denominator", "PPQN"}
LIST_INT_FIELDS = {"step_sizes", "note_values", "velocity_bins", "pitch_range", "time_signature_range"}
BUILTIN_INT = {"int", "len", "round", "ord", "sum_int"}


class FnTags:
    def __init__(self, an, qual, fn, cls):
        self.an, self.qual, self.fn, self.cls = an, qual, fn, cls
        self.env = {}
        self.obl = []      # (name, line, ok: True/False/None, text)

    def run(self):
        params = PARAM_TAGS.get(self.qual, {})
        for a in self.fn.args.args + self.fn.args.kwonlyargs:
            self.env[a.arg] = params.get(a.arg, T(OTHER) if a.arg == "self" else TOP)
        self.exec_block(self.fn.body)
        return self.ret

    ret = None

    def exec_block(self, stmts):
        for x in stmts:
            self.exec_stmt(x)

    def exec_stmt(self, x):
        if isinstance(x, (ast.FunctionDef,)):
            # nested def: analysed where it is defined and once more at the end of the enclosing function (nonlocal updates)
            self.closures = getattr(self, "closures", []) + [x]
            self.exec_block(x.body)
            return
        if isinstance(x, ast.If):
            self.check_expr(x.test)
            e0 = dict(self.env)
            self.exec_block(x.body)
            e1 = self.env
            self.env = dict(e0)
            self.exec_block(x.orelse)
            self.env = {k: join(e1.get(k), self.env.get(k)) if (k in e1 and k in self.env) else (e1.get(k) or self.env.get(k)) for k in set(e1) | set(self.env)}
            return
        if isinstance(x, (ast.For, ast.While)):
            if isinstance(x, ast.For):
                self.check_expr(x.iter)
            for _ in range(4):
                before = dict(self.env)
                if isinstance(x, ast.For):
                    self.absorb(x)
                self.exec_block(x.body)
                self.env = {k: join(before.get(k), self.env.get(k)) if k in before else self.env[k] for k in self.env}
                if self.env == before:
                    break
            self.exec_block(x.orelse)
            return
        if isinstance(x, ast.Try):
            self.exec_block(x.body); self.exec_block(x.finalbody)
            return
        if isinstance(x, ast.Return):
            if x.value is not None:
                self.check_expr(x.value)
                self.ret = join(self.ret, self.tag(x.value))
            return
        # simple statement: obligations first (they see the state before the assignment), then the effect
        for n in ast.walk(x):
            self.check(n)
        if isinstance(x, ast.Assign):
            tg = self.tag(x.value)
            for t in x.targets:
                if isinstance(t, ast.Name):
                    self.env[t.id] = tg            # strong update
                elif isinstance(t, (ast.Tuple, ast.List)):
                    self.bind(t, tg)
                elif isinstance(t, ast.Subscript) and isinstance(t.value, ast.Name):
                    self.env[t.value.id] = join(self.env.get(t.value.id), list_of(tg)) if self.env.get(t.value.id, TOP) <= LISTS else self.env.get(t.value.id, TOP)
        elif isinstance(x, ast.AugAssign) and isinstance(x.target, ast.Name):
            self.env[x.target.id] = num_op(self.env.get(x.target.id, TOP), self.tag(x.value), x.op)
        elif isinstance(x, ast.Expr) and isinstance(x.value, ast.Call) and isinstance(x.value.func, ast.Attribute) and isinstance(x.value.func.value, ast.Name):
            nm, meth = x.value.func.value.id, x.value.func.attr
            cur = self.env.get(nm)
            if cur is not None and cur != TOP and cur <= LISTS:
                if meth in ("append", "insert") and x.value.args:
                    self.env[nm] = join_lists(cur, list_of(self.tag(x.value.args[-1])))
                elif meth == "extend" and x.value.args:
                    t = self.tag(x.value.args[0])
                    self.env[nm] = join_lists(cur, t) if t != TOP and t <= LISTS else TOP

    def check_expr(self, e):
        for n in ast.walk(e):
            self.check(n)

    def bind(self, tgt, tag):
        if isinstance(tgt, ast.Name):
            self.env[tgt.id] = join(self.env.get(tgt.id), tag)
        elif isinstance(tgt, (ast.Tuple, ast.List)):
            for t in tgt.elts:
                self.bind(t, TOP if tag == TOP else (T(INT) if tag == T("pair_int") else TOP))

    def absorb(self, n):
        if isinstance(n, ast.Assign):
            tg = self.tag(n.value)
            for t in n.targets:
                self.bind(t, tg)
        elif isinstance(n, ast.AugAssign) and isinstance(n.target, ast.Name):
            self.env[n.target.id] = join(self.env.get(n.target.id), num_op(self.env.get(n.target.id, TOP), self.tag(n.value), n.op))
        elif isinstance(n, (ast.For, ast.comprehension)):
            it = self.tag(n.iter)
            if it != TOP:
                it = it - {NONE}
            el = T(INT) if it and it != TOP and it <= T("list_int", "range", "list_empty") else T("pair_int") if it == T("list_pairs") else TOP
            if isinstance(n.iter, ast.Call) and isinstance(n.iter.func, ast.Name) and n.iter.func.id == "enumerate":
                inner = self.tag(n.iter.args[0])
                if isinstance(n.target, ast.Tuple) and len(n.target.elts) == 2:
                    self.bind(n.target.elts[0], T(INT))
                    self.bind(n.target.elts[1], T(INT) if inner and inner <= T("list_int") else T(OTHER) if inner == T("list_obj") else TOP)
                    return
            if it == T("list_obj") or it == T(OTHER):
                el = T(OTHER)
            self.bind(n.target, el)

    def tag(self, e):
        if isinstance(e, ast.Constant):
            v = e.value
            return T(NONE) if v is None else T(BOOL) if isinstance(v, bool) else T(INT) if isinstance(v, int) else T(FLOAT) if isinstance(v, float) else T(OTHER)
        if isinstance(e, ast.Name):
            if e.id in self.env:
                return self.env[e.id]
            if e.id in self.an.const_tags:
                return self.an.const_tags[e.id]
            return TOP
        if isinstance(e, ast.Attribute):
            if e.attr in INT_FIELDS:
                return T(INT, NONE) if e.attr in ("time", "note", "velocity", "control", "program", "numerator", "denominator") else T(INT)
            if e.attr in LIST_INT_FIELDS:
                return T("list_int")
            if e.attr in ("_messages", "messages"):
                return T("list_obj")
            if isinstance(e.value, ast.Name) and e.value.id == "math" and e.attr in ("inf", "nan"):
                return T(FLOAT)
            if e.attr == "value":
                return TOP
            return T(OTHER)
        if isinstance(e, ast.BinOp):
            a, b = self.tag(e.left), self.tag(e.right)
            if isinstance(e.op, (ast.Add, ast.Sub, ast.Mult, ast.Div, ast.FloorDiv, ast.Mod, ast.Pow)):
                if a <= T("list_int") and b <= T("list_int") and a and b:
                    return T("list_int")
                r = num_op(a, b, e.op)
                if isinstance(e.op, ast.Pow) and r == T(INT):
                    return T(INT)
                return r
            return TOP
        if isinstance(e, ast.UnaryOp):
            return T(BOOL) if isinstance(e.op, ast.Not) else self.tag(e.operand)
        if isinstance(e, (ast.Compare, ast.BoolOp)):
            return T(BOOL)
        if isinstance(e, ast.IfExp):
            return join(self.tag(e.body), self.tag(e.orelse))
        if isinstance(e, ast.Subscript):
            c = self.tag(e.value)
            if c != TOP:
                c = c - {NONE}
            if isinstance(e.slice, ast.Slice):
                return c
            if c and c <= T("list_int", "list_empty"):
                return T(INT)
            if c == T("pair_int"):
                return T(INT)
            return TOP if c == TOP else T(OTHER)
        if isinstance(e, ast.List) and not e.elts:
            return T("list_empty")
        if isinstance(e, (ast.List, ast.ListComp)):
            elts = [self.tag(x) for x in e.elts] if isinstance(e, ast.List) else [self.tag_comp(e)]
            if all(t == T(INT) for t in elts):
                return T("list_int")
            if any(t == TOP for t in elts):
                return TOP
            return T("list_obj") if not any(FLOAT in t for t in elts) else T("list_float")
        if isinstance(e, ast.Tuple):
            return T("pair_int") if all(self.tag(x) == T(INT) for x in e.elts) else T(OTHER)
        if isinstance(e, ast.Call):
            return self.tag_call(e)
        if isinstance(e, ast.JoinedStr):
            return T("str")
        return TOP

    def tag_comp(self, e):
        sub = FnTags(self.an, self.qual, self.fn, self.cls)
        sub.env = dict(self.env)
        for g in e.generators:
            sub.absorb(g)
        return sub.tag(e.elt)

    def tag_call(self, e):
        f = e.func
        name = f.id if isinstance(f, ast.Name) else f.attr if isinstance(f, ast.Attribute) else None
        if isinstance(f, ast.Name):
            if name in ("int", "len", "round") and (name != "round" or len(e.args) == 1):
                return T(INT)
            if name == "float":
                return T(FLOAT)
            if name in ("abs",):
                return self.tag(e.args[0])
            if name in ("min", "max"):
                r = None
                for a in e.args:
                    r = join(r, self.tag(a))
                if len(e.args) == 1:
                    t = self.tag(e.args[0])
                    return T(INT) if t and t <= T("list_int") else TOP
                return r
            if name == "range":
                return T("range")
            if name == "dict" and not e.args:
                return T("list_empty")            # a dict is tagged by its values, like a list
            if name in ("sorted", "list", "reversed"):
                return self.tag(e.args[0]) if e.args else T("list_obj")
            if name in ("enumerate", "zip"):
                return T(OTHER)
            if name == "next":
                return TOP if not isinstance(e.args[0], ast.GeneratorExp) else self.tag_comp_gen(e.args[0])
            if name in ("any", "all", "isinstance", "hasattr"):
                return T(BOOL)
        q = self.an.resolve(name, self.cls if isinstance(f, ast.Attribute) else None)
        for cand in q:
            if cand in RESULT_TAGS:
                return RESULT_TAGS[cand]
        if isinstance(f, ast.Attribute):
            if name == "copy" and isinstance(f.value, ast.Name) and f.value.id == "copy" and e.args:
                return self.tag(e.args[0]) - {NONE} if self.tag(e.args[0]) != TOP else TOP
            if name in ("copy",):
                return self.tag(f.value) if self.tag(f.value) <= T("list_int", "list_obj") and self.tag(f.value) else T(OTHER)
            if name == "pop" or name == "get":
                c = self.tag(f.value)
                if c and c != TOP and c <= T("list_int", "list_empty"):
                    d_ = self.tag(e.args[1]) if (name == "get" or len(e.args) > 1) and len(e.args) > 1 else frozenset()
                    return T(INT) | d_
                return TOP
            if name == "index":
                return T(INT)
            if name == "item":
                return T(INT)
            if name == "is_integer":
                return T(BOOL)
        summ = [self.an.results.get(c) for c in q if c in self.an.results]
        if summ and all(s is not None for s in summ):
            r = None
            for s in summ:
                r = join(r, s)
            return r
        return TOP if name not in self.an.class_names else T(OTHER)

    def tag_comp_gen(self, g):
        sub = FnTags(self.an, self.qual, self.fn, self.cls)
        sub.env = dict(self.env)
        for gen in g.generators:
            sub.absorb(gen)
        return sub.tag(g.elt)

    def need_int(self, what, line, tag, allow_none=True):
        ok_set = T(INT, NONE) if allow_none else T(INT)
        if tag == TOP or "?" in tag:
            self.obl.append((what, line, None, "tag unknown"))
        else:
            self.obl.append((what, line, bool(tag <= ok_set), "tag " + "|".join(sorted(tag))))

    def check(self, n):
        # writes to a `time` field
        if isinstance(n, (ast.Assign, ast.AugAssign)):
            tgts = n.targets if isinstance(n, ast.Assign) else [n.target]
            for t in tgts:
                if isinstance(t, ast.Attribute) and t.attr == "time":
                    tg = self.tag(n.value) if isinstance(n, ast.Assign) else num_op(T(INT), self.tag(n.value), n.op)
                    self.need_int(f"write .time", n.lineno, tg)
        if isinstance(n, ast.Call):
            f = n.func
            name = f.id if isinstance(f, ast.Name) else f.attr if isinstance(f, ast.Attribute) else None
            if name in ("Message", "MidiMessage"):
                for kw in n.keywords:
                    if kw.arg == "time":
                        self.need_int(f"{name}(time=...)", n.lineno, self.tag(kw.value))
            # parameter tag contracts at call sites
            cands = [c for c in self.an.resolve(name, None) if c in PARAM_TAGS]
            if name in ("split",) and n.args and isinstance(n.args[0], ast.Constant) and isinstance(n.args[0].value, str):
                cands = []                        # str.split
            if name == "__init__" or (isinstance(f, ast.Attribute) and isinstance(f.value, ast.Call) and isinstance(f.value.func, ast.Name) and f.value.func.id == "super"):
                cands = []
            if name in self.an.class_names:
                cands = [c for c in cands if c == f"{name}.__init__"]
            for cand in cands:
                if cand in PARAM_TAGS:
                    fn = self.an.functions[cand][0]
                    names = [a.arg for a in fn.args.args if a.arg != "self"]
                    bound = dict(zip(names, n.args))
                    bound.update({k.arg: k.value for k in n.keywords if k.arg})
                    for p, want in PARAM_TAGS[cand].items():
                        if p in bound:
                            tg = self.tag(bound[p])
                            if tg == TOP or "?" in tg:
                                self.obl.append((f"arg {p} of {cand}", n.lineno, None, "tag unknown"))
                            else:
                                w2 = want | (T("list_empty") if "list_int" in want else frozenset()) | T(NONE)      # None-ness is the value layer's business
                                self.obl.append((f"arg {p} of {cand}", n.lineno, bool(tg <= w2), "tag " + "|".join(sorted(tg)) + " wanted " + "|".join(sorted(want))))
                    break
        # tick values rendered into tokens
        if isinstance(n, ast.JoinedStr):
            txt = ast.unparse(n)
            if ("REST" in txt or "VALUE" in txt) and self.qual.endswith(".tokenise"):
                for v in n.values:
                    if isinstance(v, ast.FormattedValue) and not (isinstance(v.value, ast.Attribute) and v.value.attr == "value"):
                        self.need_int("tick rendered into a token", n.lineno, self.tag(v.value), allow_none=False)


class Analysis:
    def __init__(self, sources, consts):
        self.sources = sources
        self.class_names = set(sources.classes)
        self.const_tags = {k: (T(INT) if isinstance(v, int) and not isinstance(v, bool) else T(FLOAT) if isinstance(v, float) else TOP) for k, v in consts["settings"].items()}
        self.const_tags["VALID_TUPLETS"] = T("list_pairs") if all(isinstance(t, list) and all(isinstance(x, int) for x in t) for t in consts["settings"].get("VALID_TUPLETS", [])) else TOP
        self.functions = {}
        for cname, info in sources.classes.items():
            for m, node in info["methods"].items():
                self.functions[f"{cname}.{m}"] = (node, cname, info["file"])
        for fname, node in sources.functions.items():
            self.functions[fname] = (node, None, sources.func_file[fname])
        self.results = {}

    def resolve(self, name, cls):
        if name is None:
            return []
        out = [q for q in self.functions if q == name or q.endswith("." + name)]
        if name in self.class_names:
            out.append(f"{name}.__init__")
        return out

    def run(self):
        obligations = []
        # two passes so that result summaries of callees are available
        for _ in range(2):
            obligations = []
            for q, (node, cls, file) in self.functions.items():
                if q.endswith(".from_dict") or q.endswith("load_from_file") or "plot_" in q:
                    continue                     # deserialisation / settings / plotting: outside the property's operations
                ft = FnTags(self, q, node, cls)
                r = ft.run()
                if q not in RESULT_TAGS and r is not None:
                    self.results[q] = r
                for what, line, ok, text in ft.obl:
                    obligations.append({"name": f"tag@{file}:{line}:{what}", "function": q, "file": file, "line": line, "ok": ok, "text": text})
        # de-duplicate (nested defs are walked with their parents)
        seen, out = set(), []
        for o in obligations:
            k = (o["file"], o["line"], o["name"])
            if k not in seen:
                seen.add(k)
                out.append(o)
        return out
