"""Concrete evaluation of the sidecar contract language on real objects, and replay of solver models.
Runs under /venv/bin/python (no z3 here): imported by replay_runner.py and by the bounded tier."""
import ast
import copy
import math


class SpecError(Exception):
    pass


RECORDED = {}      # callee name -> list of values returned during the replayed call (filled by replay_runner's recorders)


class Ev:
    """AST interpreter for contract expressions over real Python objects."""

    def __init__(self, env, consts, specfuns, snapshot=None, entry_ids=None):
        self.env, self.consts, self.specfuns = env, consts, specfuns
        self.snapshot = snapshot          # (old_env, orig_of) for old(...)
        self.entry_ids = entry_ids or set()
        self.in_old = False

    def run(self, src):
        return self.ev(ast.parse(src, mode="eval").body, self.env)

    def ev(self, e, env):
        m = getattr(self, "e_" + type(e).__name__, None)
        if m is None:
            raise SpecError(f"spec expression {type(e).__name__}")
        return m(e, env)

    def e_Constant(self, e, env):
        return e.value

    def e_Name(self, e, env):
        if e.id in env:
            return env[e.id]
        if e.id in self.consts:
            return self.consts[e.id]
        raise SpecError(f"unbound {e.id}")

    def e_Attribute(self, e, env):
        v = self.ev(e.value, env)
        return getattr(v, e.attr)

    def e_Subscript(self, e, env):
        c = self.ev(e.value, env)
        if isinstance(e.slice, ast.Slice):
            lo = self.ev(e.slice.lower, env) if e.slice.lower else None
            hi = self.ev(e.slice.upper, env) if e.slice.upper else None
            return c[lo:hi]
        return c[self.ev(e.slice, env)]

    def e_BinOp(self, e, env):
        a, b = self.ev(e.left, env), self.ev(e.right, env)
        op = type(e.op)
        if op is ast.Add:
            return a + b
        if op is ast.Sub:
            return a - b
        if op is ast.Mult:
            return a * b
        if op is ast.Mod:
            return a % b
        if op is ast.FloorDiv:
            return a // b
        if op is ast.Div:
            return a / b
        if op is ast.Pow:
            return a ** b
        raise SpecError("operator")

    def e_UnaryOp(self, e, env):
        v = self.ev(e.operand, env)
        return (not v) if isinstance(e.op, ast.Not) else -v

    def e_BoolOp(self, e, env):
        if isinstance(e.op, ast.And):
            for v in e.values:
                if not self.ev(v, env):
                    return False
            return True
        for v in e.values:
            if self.ev(v, env):
                return True
        return False

    def e_Compare(self, e, env):
        l = self.ev(e.left, env)
        for op, r in zip(e.ops, e.comparators):
            r = self.ev(r, env)
            t = type(op)
            if t in (ast.Eq, ast.Is):
                ok = self.same(l, r)
            elif t in (ast.NotEq, ast.IsNot):
                ok = not self.same(l, r)
            elif t is ast.Lt:
                ok = l < r
            elif t is ast.LtE:
                ok = l <= r
            elif t is ast.Gt:
                ok = l > r
            elif t is ast.GtE:
                ok = l >= r
            elif t is ast.In:
                ok = any(self.same(l, x) for x in r)
            elif t is ast.NotIn:
                ok = not any(self.same(l, x) for x in r)
            else:
                raise SpecError("comparison")
            if not ok:
                return False
            l = r
        return True

    @staticmethod
    def same(a, b):
        if isinstance(a, (int, float, bool, str, type(None), tuple)) or isinstance(b, (int, float, bool, str, type(None), tuple)):
            if isinstance(a, bool) != isinstance(b, bool) and isinstance(a, (bool,)) and b is None:
                return False
            return a == b
        import enum
        if isinstance(a, enum.Enum) or isinstance(b, enum.Enum):
            return a is b
        return a is b       # objects: identity (Message defines no __eq__; checked by consts)

    def e_IfExp(self, e, env):
        return self.ev(e.body, env) if self.ev(e.test, env) else self.ev(e.orelse, env)

    def e_Tuple(self, e, env):
        return tuple(self.ev(x, env) for x in e.elts)

    def e_List(self, e, env):
        return [self.ev(x, env) for x in e.elts]

    def e_Lambda(self, e, env):
        return lambda *a: self.ev(e.body, {**env, **dict(zip([x.arg for x in e.args.args], a))})

    def e_Call(self, e, env):
        f = e.func
        if isinstance(f, ast.Name):
            n = f.id
            if n == "forall":
                lo, hi, lam = self.ev(e.args[0], env), self.ev(e.args[1], env), self.ev(e.args[2], env)
                return all(lam(k) for k in range(lo, hi))
            if n == "exists":
                lo, hi, lam = self.ev(e.args[0], env), self.ev(e.args[1], env), self.ev(e.args[2], env)
                return any(lam(k) for k in range(lo, hi))
            if n == "implies":
                return (not self.ev(e.args[0], env)) or bool(self.ev(e.args[1], env))
            if n == "iff":
                return bool(self.ev(e.args[0], env)) == bool(self.ev(e.args[1], env))
            if n == "ite":
                return self.ev(e.args[1], env) if self.ev(e.args[0], env) else self.ev(e.args[2], env)
            if n == "is_none":
                return self.ev(e.args[0], env) is None
            if n == "old":
                if self.snapshot is None:
                    raise SpecError("old() without snapshot")
                old_env, orig_of = self.snapshot
                env2 = dict(env)
                env2.update(old_env)
                was, self.in_old = self.in_old, True
                try:
                    v = self.ev(e.args[0], env2)
                finally:
                    self.in_old = was
                return orig_of.get(id(v), v) if not isinstance(v, (int, float, str, bool, type(None))) else v
            if n == "fresh":
                return id(self.ev(e.args[0], env)) not in self.entry_ids
            if n == "allocated":
                return True
            if n in ("len", "abs", "min", "max", "int", "round", "float", "sorted", "list", "sum", "any", "all", "range", "isinstance"):
                return getattr(__import__("builtins"), n)(*[self.ev(a, env) for a in e.args])
            if n == "isinf":
                return self.ev(e.args[0], env) == math.inf
            if n == "val":
                return self.ev(e.args[0], env)
            if n == "__frame__":
                return True       # frames are checked by the generic snapshot comparison in replay
            if n in self.specfuns:
                return self.specfuns[n](self, *[self.ev(a, env) for a in e.args])
            if n in env and callable(env[n]):
                return env[n](*[self.ev(a, env) for a in e.args])
        if isinstance(f, ast.Attribute) and f.attr == "index":
            return self.ev(f.value, env).index(self.ev(e.args[0], env))
        raise SpecError(f"spec call {ast.unparse(e)[:50]}")


# ------------------------------------------------------------------------------------ building inputs from decoded models
def build_value(d, classes, enums, memo):
    """decoded model value (see pyvc.verify.decode) -> real object"""
    if d is None or isinstance(d, (int, float, bool, str)):
        if d == "inf":
            return math.inf
        return d
    if isinstance(d, list):
        return [build_value(x, classes, enums, memo) for x in d]
    if "enum" in d:
        cls = enums[d["enum"]]
        try:
            return cls[d["name"]]
        except KeyError:
            return list(cls)[0]
    if "list" in d:
        return [build_value(x, classes, enums, memo) for x in d["list"]]
    if "ref" in d:
        rid = d["ref"]
        if rid in memo:
            return memo[rid]
        if "cls" not in d:
            raise SpecError(f"dangling reference {rid}")
        cls = classes[d["cls"]]
        obj = cls.__new__(cls)
        memo[rid] = obj
        for f, v in d["fields"].items():
            obj.__dict__[f] = build_value(v, classes, enums, memo) if f != "name" else ""      # display names are strings; the value layer does not model them
        return obj
    raise SpecError(f"cannot build {d!r}")


def reachable_ids(vals):
    seen = set()
    stack = list(vals)
    while stack:
        v = stack.pop()
        if isinstance(v, (int, float, str, bool, type(None))) or id(v) in seen:
            continue
        import enum
        if isinstance(v, enum.Enum):
            continue
        seen.add(id(v))
        if isinstance(v, (list, tuple)):
            stack += list(v)
        elif isinstance(v, dict):
            stack += list(v.values())
        elif hasattr(v, "__dict__"):
            stack += list(v.__dict__.values())
    return seen


def snapshot(env):
    memo = {}
    old_env = copy.deepcopy(env, memo)
    orig_of = {}
    # memo maps id(orig) -> copy ; we need id(copy) -> orig
    keep = []

    def walk(v, seen):
        if isinstance(v, (int, float, str, bool, type(None))) or id(v) in seen:
            return
        seen.add(id(v))
        if id(v) in memo:
            orig_of[id(memo[id(v)])] = v
            keep.append(v)
        if isinstance(v, (list, tuple)):
            for x in v:
                walk(x, seen)
        elif isinstance(v, dict):
            for x in v.values():
                walk(x, seen)
        elif hasattr(v, "__dict__") and not isinstance(v, type):
            import enum
            if not isinstance(v, enum.Enum):
                for x in v.__dict__.values():
                    walk(x, seen)
    walk(env, set())
    return old_env, orig_of, keep


def check_call(fn, env, contract, consts, specfuns, call_args=None):
    """run the real function on env (name -> object) and evaluate the contract concretely.
    returns dict(pre_ok, outcome, failed=[names], detail)"""
    ids = reachable_ids(env.values())
    pre = Ev(env, consts, specfuns, entry_ids=ids)
    for r in contract.get("requires", []):
        try:
            if not pre.run(r):
                return {"pre_ok": False, "failed_pre": r}
        except Exception as ex:
            return {"pre_ok": False, "failed_pre": r, "error": repr(ex)}
    old_env, orig_of, keep = snapshot(env)
    names = call_args if call_args is not None else list(env)
    RECORDED.clear()
    try:
        result = fn(*[env[n] for n in names])
        outcome = "returned"
    except Exception as ex:
        result = None
        outcome = type(ex).__name__
        detail = repr(ex)
    out = {"pre_ok": True, "outcome": outcome, "failed": []}
    if outcome != "returned":
        cond = contract.get("raises", {}).get(outcome)
        if cond is None:
            out["failed"].append(f"raises[{outcome}]")
            out["detail"] = detail
        else:
            oe = Ev(old_env, consts, specfuns, entry_ids=ids)
            if not oe.run(cond):
                out["failed"].append(f"raises[{outcome}]")
                out["detail"] = detail
        return out
    env2 = dict(env)
    env2["result"] = result
    post = Ev(env2, consts, specfuns, snapshot=(old_env, orig_of), entry_ids=ids)
    for nm, e in contract.get("ensures", []):
        try:
            ok = bool(post.run(e))
        except Exception as ex:
            ok = True        # a clause that cannot be evaluated concretely confirms nothing (it is NOT counted as failed)
            out.setdefault("errors", []).append(f"{nm}: {ex!r}")
        if not ok:
            out["failed"].append(f"post[{nm}]")
    out["result"] = repr(result)[:200]
    return out
