import argparse, os, sys
ROOT = os.path.dirname(os.path.dirname(os.path.abspath(__file__)))
sys.path.insert(0, ROOT)


def main():
    if len(sys.argv) > 1 and sys.argv[1] == "replay":
        from pyvc.check import replay_file
        sys.exit(replay_file(sys.argv[2]))
    ap = argparse.ArgumentParser()
    ap.add_argument("prop")
    ap.add_argument("--tier", default=os.environ.get("VERIF_TIER", "quick"))
    ap.add_argument("--seed", type=int, default=int(os.environ.get("VERIF_SEED", "0") or 0))
    ap.add_argument("--no-bounded", action="store_true")
    a = ap.parse_args()
    from pyvc.check import check_property
    import props
    spec = dict(props.PROPS[a.prop])
    if a.no_bounded:
        spec["bounded"] = False
    try:
        rc = check_property(a.prop, a.tier, a.seed, spec=spec)
    except Exception:
        import traceback
        traceback.print_exc()
        print(f"CHECKER-ERROR property={a.prop}: checker crashed")
        rc = 3
    sys.exit(rc)


if __name__ == "__main__":
    main()
