"""Runs under /venv/bin/python: rebuilds a concrete input, calls the REAL function from the repository
working tree and evaluates the sidecar contract concretely.  stdin: JSON job(s); stdout: JSON result(s)."""
import json, os, sys, importlib, logging
HERE = os.path.dirname(os.path.dirname(os.path.abspath(__file__)))


def load_world(repo):
    sys.path.insert(0, repo)
    sys.path.insert(0, HERE)
    logging.disable(logging.CRITICAL)
    mods = ["scoda.elements.message", "scoda.enumerations.message_type", "scoda.enumerations.tokenisation_prefixes", "scoda.misc.music_theory",
            "scoda.misc.util", "scoda.sequences.abstract_sequence", "scoda.sequences.relative_sequence", "scoda.sequences.absolute_sequence",
            "scoda.sequences.sequence", "scoda.elements.bar", "scoda.elements.track", "scoda.elements.composition", "scoda.midi.midi_message",
            "scoda.midi.midi_track", "scoda.midi.midi_file", "scoda.tokenisation.notelike_tokenisation", "scoda.settings.settings",
            "scoda.exceptions.bar_exception", "scoda.exceptions.sequence_exception", "scoda.exceptions.tokenisation_exception"]
    import enum, inspect
    classes, funcs, enums, consts = {}, {}, {}, {}
    for m in mods:
        mod = importlib.import_module(m)
        for n, v in vars(mod).items():
            if inspect.isclass(v) and v.__module__ == m:
                classes[n] = v
                if issubclass(v, enum.Enum):
                    enums[n] = v
            elif inspect.isfunction(v) and v.__module__ == m:
                funcs[n] = v
        if m.endswith("settings"):
            for n, v in vars(mod).items():
                if n.isupper():
                    consts[n] = v
    consts.update(classes)
    return classes, funcs, enums, consts


def resolve(qual, classes, funcs):
    parts = qual.split(".")
    if parts[0] in classes:
        return getattr(classes[parts[0]], parts[1])
    return funcs[parts[0]]


def main():
    job = json.load(sys.stdin)
    classes, funcs, enums, consts = load_world(job["repo"])
    from pyvc import concrete
    # record what contracted callees return, for callres(...) in contract clauses
    import functools

    def recorder(name, f):
        @functools.wraps(f)
        def w(*a, **k):
            r = f(*a, **k)
            concrete.RECORDED.setdefault(name, []).append(r)
            return r
        return w
    for cname in ("AbsoluteSequence", "Sequence"):
        c = classes.get(cname)
        if c is not None and "get_interleaved_message_pairings" in c.__dict__:
            setattr(c, "get_interleaved_message_pairings", recorder("get_interleaved_message_pairings", c.__dict__["get_interleaved_message_pairings"]))
    import importlib.util
    sp = importlib.util.spec_from_file_location('concrete_spec', os.path.join(HERE, 'contracts', 'concrete_spec.py'))
    concrete_spec = importlib.util.module_from_spec(sp); sp.loader.exec_module(concrete_spec)
    out = []
    for j in job["jobs"]:
        try:
            memo = {}
            env = {p: concrete.build_value(j["inputs"].get(p), classes, enums, memo) for p in j["params"]}
            fn = resolve(j["qual"], classes, funcs)
            r = concrete.check_call(fn, env, j["contract"], consts, concrete_spec.SPEC, call_args=j["params"])
        except Exception as ex:
            import traceback
            r = {"pre_ok": False, "error": repr(ex), "trace": traceback.format_exc()[-800:]}
        out.append(r)
    json.dump(out, sys.stdout)


if __name__ == "__main__":
    main()
