"""User-level calls: callee contracts (modular), inlining of small uncontracted bodies, constructors,
properties, list methods, local closures."""
import ast
import os
import z3
from .values import *
from .engine import State, BUILTIN_EXC

MAX_INLINE_DEPTH = 4


def do_user_call(X, node, st):
    """returns outcomes [(kind, state, value)]"""
    X.cur_line = getattr(node, "lineno", X.cur_line)
    st = st.cp()
    if isinstance(node, ast.Attribute):            # property read
        obj = X.ev(node.value, st)
        if not isinstance(obj, Ref):
            # not an object with that property: ordinary attribute
            return [("n", st, X.ev_plain_attr(node, obj, st))] if hasattr(X, "ev_plain_attr") else _plain_attr(X, node, obj, st)
        cls, fn = X.ctx.find_method(obj.cls, node.attr)
        if fn is None or not _is_property(fn):
            return [("n", st, X.read_field(st, obj, node.attr))]
        X.need(obj, st, f"object of .{node.attr}")
        return call_function(X, st, cls, fn, [obj], {}, node)
    f = node.func
    args = lambda: [X.ev(a, st) for a in node.args]
    kwargs = lambda: {k.arg: X.ev(k.value, st) for k in node.keywords}
    if isinstance(f, ast.Name):
        n = f.id
        if n in X.local_defs and isinstance(st.env.get(n), Closure):
            return call_closure(X, st, X.local_defs[n], args(), kwargs())
        if n in X.ctx.sources.classes:
            return construct(X, st, n, args(), kwargs(), node)
        if n in X.ctx.sources.functions:
            return call_function(X, st, None, X.ctx.sources.functions[n], args(), kwargs(), node)
        raise VCError(f"call of {n}")
    if isinstance(f, ast.Attribute):
        # super().__init__(...)
        if isinstance(f.value, ast.Call) and isinstance(f.value.func, ast.Name) and f.value.func.id == "super":
            cur = st.meta.get("cls")
            bases = X.ctx.sources.classes.get(cur, {}).get("bases", [])
            if f.attr != "__init__" or not bases or bases[0] not in X.ctx.sources.classes:
                return [("n", st, NONE)]      # object.__init__ / ABC.__init__
            cls, fn = X.ctx.find_method(bases[0], "__init__")
            if fn is None:
                return [("n", st, NONE)]
            return call_function(X, st, cls, fn, [st.env["self"]] + args(), kwargs(), node, force_inline=True)
        if isinstance(f.value, ast.Name) and f.value.id == "copy" and f.attr == "copy" and "copy" not in st.env:
            (v,) = args()
            return [("n", st, list_copy(X, st, v))]
        # static call Class.method(...)
        if isinstance(f.value, ast.Name) and f.value.id in X.ctx.sources.classes and f.value.id not in st.env:
            cls, fn = X.ctx.find_method(f.value.id, f.attr)
            if fn is None:
                raise VCError(f"unknown {f.value.id}.{f.attr}")
            a = args()
            if not _is_static(fn):
                pass  # unbound call with explicit self
            return call_function(X, st, cls, fn, a, kwargs(), node)
        if f.attr == "__class__":
            obj = X.ev(f.value, st)
            if not isinstance(obj, Ref):
                raise VCError("__class__ of non-object")
            return construct(X, st, obj.cls, args(), kwargs(), node)
        obj = X.ev(f.value, st)
        if isinstance(obj, ListV) and f.attr == "append" and obj.elem == "?" and isinstance(f.value, ast.Name):
            (v,) = [X.ev(a, st) for a in node.args]
            if isinstance(v, (ConstList, TupleV)):
                # a fresh empty list receiving a structured (non-heap) element becomes a Python-level list
                st.env[f.value.id] = ConstList([v])
                return [("n", st, NONE)]
        if isinstance(obj, AbsDictV):
            return [("n", st, X.absdict_method(st, obj, f.attr, node))]
        if isinstance(obj, ListV):
            X.need(obj, st, "list")
            outs = list_method(X, st, obj, f.attr, node)
            root = getattr(obj, "from_dict", None)
            if root and f.attr in ("append", "insert", "pop", "extend", "remove", "sort", "clear"):
                for k_, t_, v_ in outs:
                    if k_ == "n":
                        X.oblige("dict-list.refinement", t_, X.absdict_pred(t_, root, obj), "safe", text=f"a list held by dict {root} still satisfies the refinement after .{f.attr}()")
            return outs
        if isinstance(obj, StrV):
            if f.attr == "split":
                from .tokens import str_split
                (sep,) = args()
                if sep.const() is None:
                    raise VCError("split on a symbolic separator")
                return [("n", st, ConstList(str_split(obj, sep.const())))]
            raise VCError(f"str method {f.attr}")
        if isinstance(obj, ConstList) and f.attr == "remove" and isinstance(f.value, ast.Name):
            (v,) = args()
            for k_, it in enumerate(obj.items):
                c_ = z3.simplify(X.eq(it, v, st))
                if z3.is_true(c_):
                    st.env[f.value.id] = ConstList(obj.items[:k_] + obj.items[k_ + 1:])
                    return [("n", st, NONE)]
                if not z3.is_false(c_):
                    raise VCError("remove() on a constant list with a symbolic match")
            X.safety("list.remove(x): x in list (ValueError)", st, FALSE)
            return [("n", st, NONE)]
        if isinstance(obj, ConstList) and f.attr == "append" and isinstance(f.value, ast.Name):
            (v,) = args()
            st.env[f.value.id] = ConstList(obj.items + [v])      # Python-level list of fixed length: copy-on-write
            return [("n", st, NONE)]
        if isinstance(obj, ConstList):
            if f.attr == "pop":
                raise VCError("pop on a constant list")
            raise VCError(f"method .{f.attr} on constant list at line {node.lineno}")
        if isinstance(obj, Ref):
            X.need(obj, st, f"receiver of .{f.attr}()")
            cls, fn = X.ctx.find_method(obj.cls, f.attr)
            if fn is None:
                raise VCError(f"unknown method {obj.cls}.{f.attr}")
            return call_function(X, st, cls, fn, ([] if _is_static(fn) else [obj]) + args(), kwargs(), node)
        if isinstance(obj, Opaque):
            return [("n", st, NONE)]
        raise VCError(f"method .{f.attr} on {obj!r} at line {node.lineno}")
    raise VCError("call form")


def _plain_attr(X, node, obj, st):
    raise VCError(f"attribute .{node.attr} of {obj!r}")


def _is_property(fn):
    return any(isinstance(d, ast.Name) and d.id == "property" for d in fn.decorator_list)


def _is_static(fn):
    return any(isinstance(d, ast.Name) and d.id == "staticmethod" for d in fn.decorator_list)


def bind_params(X, fn, args, kwargs, st):
    a = fn.args
    names = [p.arg for p in a.args]
    env = {}
    if len(args) > len(names):
        raise VCError("too many positional arguments")
    for n, v in zip(names, args):
        env[n] = v
    for k, v in kwargs.items():
        if k not in names and k not in [p.arg for p in a.kwonlyargs]:
            raise VCError(f"unexpected keyword {k}")
        env[k] = v
    defaults = dict(zip(names[len(names) - len(a.defaults):], a.defaults))
    for n in names:
        if n not in env:
            if n not in defaults:
                raise VCError(f"missing argument {n}")
            env[n] = X.ev(defaults[n], st)
    return env


def construct(X, st, cls, args, kwargs, node):
    r = X.alloc(st, cls.lower())
    obj = Ref(r, cls)
    # all declared fields start undefined; __init__ assigns them
    c, fn = X.ctx.find_method(cls, "__init__")
    if fn is None:
        return [("n", st, obj)]
    outs = []
    for k, t, v in call_function(X, st, c, fn, [obj] + args, kwargs, node, ctor_of=cls):
        outs.append((k, t, obj if k == "n" else v))
    return outs


def call_function(X, st, cls, fn, args, kwargs, node, force_inline=False, ctor_of=None):
    qual = (cls + "." if cls else "") + fn.name
    contract = X.ctx.contracts.get(qual)
    if ctor_of and contract is None:
        contract = X.ctx.contracts.get(f"{ctor_of}.__init__")
    env = bind_params(X, fn, args, kwargs, st)
    if contract is not None and not force_inline and not (X.qual == qual and X.depth == 0 and False):
        return apply_contract(X, st, contract, env, node)
    return inline(X, st, cls, fn, env, qual)


def inline(X, st, cls, fn, env, qual):
    if X.depth >= MAX_INLINE_DEPTH:
        raise VCError(f"inline depth exceeded at {qual}")
    X.inlined.add(qual)
    saved = (X.contract, X.loop_counter, X.local_defs, getattr(X, "loop_prefix", ""), getattr(X, "loop_names", None))
    X.depth += 1
    X.contract = X.ctx.contracts.get(qual + "#loops")
    X.loop_counter = 0
    X.loop_names = X.name_loops(fn)
    X.local_defs = {n.name: n for n in fn.body if isinstance(n, ast.FunctionDef)}
    callee = State(env, st.heap, st.pc, dict(st.meta))
    callee.meta["cls"] = cls
    caller_env = st.env
    try:
        outs = []
        for k, t, v in X.block(fn.body, callee):
            t2 = State(dict(caller_env), t.heap, t.pc, dict(st.meta))
            if k in ("n", "r"):
                outs.append(("n", t2, v if k == "r" else NONE))
            elif k == "x":
                outs.append(("x", t2, v))
            else:
                raise VCError("break/continue escaping a function")
        return outs
    finally:
        X.depth -= 1
        X.contract, X.loop_counter, X.local_defs, X.loop_prefix, X.loop_names = saved


def call_closure(X, st, fn, args, kwargs):
    """nested def with nonlocal: shares the caller's environment"""
    env = bind_params(X, fn, args, kwargs, st)
    nonlocals = set()
    for s in ast.walk(fn):
        if isinstance(s, ast.Nonlocal):
            nonlocals |= set(s.names)
    callee_env = dict(st.env)
    callee_env.update(env)
    saved = (X.loop_counter, getattr(X, "loop_prefix", ""), getattr(X, "loop_names", None))
    X.loop_prefix = fn.name + "."
    X.loop_counter = 0
    X.loop_names = X.name_loops(fn)
    X.depth += 1
    try:
        outs = []
        for k, t, v in X.block(fn.body, State(callee_env, st.heap, st.pc, dict(st.meta))):
            env2 = dict(st.env)
            for n in st.env:
                if n in t.env and (n in nonlocals or n not in env):
                    # free variables read by the closure are shared; only nonlocal ones can have been rebound
                    if n in nonlocals:
                        env2[n] = t.env[n]
            t2 = State(env2, t.heap, t.pc, dict(st.meta))
            if k in ("n", "r"):
                outs.append(("n", t2, v if k == "r" else NONE))
            elif k == "x":
                outs.append(("x", t2, v))
            else:
                raise VCError("break/continue escaping a closure")
        return outs
    finally:
        X.depth -= 1
        X.loop_counter, X.loop_prefix, X.loop_names = saved


# ---------------------------------------------------------------------------- contracts at call sites
def member_term(X, expr, old_state, r):
    """r is one of the objects designated by the modifies expression (evaluated in the entry state)"""
    if expr == "*":
        return TRUE
    v = X.spec_ev(expr, old_state)
    return _member(X, v, old_state, r)


def _member(X, v, st, r):
    if isinstance(v, ListV):
        k = fresh("k")
        body = z3.And(0 <= k, k < X.llen(st, v), st.heap["@el"][v.v][k] == r)
        t = z3.Exists([k], body)
        return z3.And(z3.Not(v.none), t) if v.none is not None else t
    if isinstance(v, Ref):
        t = v.v == r
        return z3.And(z3.Not(v.none), t) if v.none is not None else t
    if isinstance(v, (ConstList, TupleV)):
        return z3.Or([_member(X, x, st, r) for x in v.items] or [FALSE])
    if isinstance(v, NoneV):
        return FALSE
    if isinstance(v, CondDes):
        return z3.And(v.cond, _member(X, v.val, st, r))
    raise VCError(f"modifies designator {v!r}")


def _list_member(X, v, r):
    """r is one of the list objects designated (for the '@lists' frame a list designates itself)"""
    if isinstance(v, ListV):
        t = v.v == r
        return z3.And(z3.Not(v.none), t) if v.none is not None else t
    if isinstance(v, (ConstList, TupleV)):
        return z3.Or([_list_member(X, x, r) for x in v.items] or [FALSE])
    if isinstance(v, NoneV):
        return FALSE
    if isinstance(v, CondDes):
        return z3.And(v.cond, _list_member(X, v.val, r))
    raise VCError(f"@lists designator {v!r}")


def frame_term(X, field, modifies, old_state, new_heap):
    """every pre-existing object not designated by `modifies[field]` keeps `field`"""
    old_heap = old_state.heap
    r = fresh("r")
    if field == "@lists":
        des = modifies.get("@lists")
        mem = _list_member(X, X.spec_ev(des, old_state), r) if (des and des != "*") else (TRUE if des == "*" else FALSE)
        same = z3.And(new_heap["@len"][r] == old_heap["@len"][r], new_heap["@el"][r] == old_heap["@el"][r])
        pats = [new_heap["@len"][r], new_heap["@el"][r]]
        return _forall_pat([r], z3.Implies(z3.And(old_heap["@alloc"][r], z3.Not(mem)), same), pats)
    des = modifies.get(field)
    mem = member_term(X, des, old_state, r) if des else FALSE
    same = new_heap[field][r] == old_heap[field][r]
    pats = [new_heap[field][r]]
    if field + "?" in new_heap:
        same = z3.And(same, new_heap[field + "?"][r] == old_heap[field + "?"][r])
        pats.append(new_heap[field + "?"][r])
    return _forall_pat([r], z3.Implies(z3.And(old_heap["@alloc"][r], z3.Not(mem)), same), pats)


def _forall_pat(vs, body, pats):
    """explicit patterns where z3 accepts them (select over a store chain is sometimes rejected), inferred ones otherwise"""
    good = []
    for p_ in pats:
        try:
            z3.ForAll(vs, body, patterns=[p_])
            good.append(p_)
        except z3.Z3Exception:
            pass
    return z3.ForAll(vs, body, patterns=good) if good else z3.ForAll(vs, body)


def keep_unreachable_lists(X, pre, post):
    """escape analysis (A, syntactic): lists a callee cannot reach keep length and content across the call --
    (1) private local lists of the function under verification (never passed, stored or aliased),
    (2) the configuration lists of a tokeniser object, which library code below the tokeniser never receives"""
    if X.depth != 0:
        return
    keep = []
    for n in getattr(X, "private_locals", ()):
        v = pre.env.get(n)
        if isinstance(v, ListV) and getattr(v, "frozen_heap", None) is None:
            keep.append(v.v)
    for n, v in pre.env.items():
        if isinstance(v, Ref) and v.cls == "MultiTrackLargeVocabularyNotelikeTokeniser":
            for f, t in X.ctx.schema[v.cls].items():
                if parse_type(t)[0] == "list":
                    keep.append(pre.heap[f][v.v])
    for l in keep:
        post.pc.append(z3.And(post.heap["@len"][l] == pre.heap["@len"][l], post.heap["@el"][l] == pre.heap["@el"][l]))
    if keep:
        X.notes.append("A: private local lists and the tokeniser's configuration lists are unreachable for callees (syntactic escape analysis)")


def apply_contract(X, st, C, env, node):
    X.used_contracts.add(C.qual)
    line = getattr(node, "lineno", X.cur_line)
    pre = State(dict(env), dict(st.heap), st.pc, {"old_heap": dict(st.heap), "old_env": dict(env), "cls": None})
    assumed = X.contract is not None and X.depth == 0 and C.qual in X.contract.assume_pre
    for k, r in enumerate(C.requires):
        if assumed:
            X.notes.append(f"A: precondition of {C.qual} assumed at its call sites in {X.qual} (validated by the bounded tier)")
            continue
        g = X.truth(X.spec_ev(r, pre), pre)
        X.oblige(f"pre@{line}:{C.qual.split('.')[-1]}[{k}]", st, g, "pre", text=r)
    post = st.cp()
    old_view = State(dict(env), dict(st.heap), post.pc, dict(pre.meta))
    mods = dict(C.modifies)
    if C.allocates == "keep_fields":
        # the callee writes no field of any pre-existing object; the objects it allocates are chosen among the unallocated
        # references, whose field values are unconstrained in every state (all typing axioms are guarded by `alloc`), so their
        # fields can be described on the same arrays: no field array is re-framed
        mods.setdefault("@lists", None)
    elif C.allocates:
        # a callee that allocates objects re-frames the fields of the classes it can instantiate; the configuration object of the
        # tokeniser is never created by library code called from inside a verified function, so its fields stay as they are
        keep = set(X.ctx.schema.get("MultiTrackLargeVocabularyNotelikeTokeniser", {})) if not C.qual.startswith("MultiTrackLargeVocabularyNotelikeTokeniser") else set()
        for cls_, fields_ in X.ctx.schema.items():
            if cls_ != "MultiTrackLargeVocabularyNotelikeTokeniser":
                keep -= set(fields_)
        # Fields the callee does not name in `modifies` keep their arrays (as for "keep_fields"): the objects a callee allocates are
        # chosen among the references that are unallocated in the pre-state, whose cells are unconstrained there (every typing axiom and
        # every program-derived fact is about allocated objects), so the values the callee gives them can be read off the same arrays.
        if os.environ.get("PYVC_REFRAME_ALL"):
            for fld in list(st.heap):
                if not fld.endswith("?") and fld not in ("@el", "@alloc", "@len") and fld not in mods and fld not in keep:
                    mods[fld] = None
        mods.setdefault("@lists", None)
    C_modifies = mods
    if not C.pure:
        for fld in C_modifies:
            if fld == "@lists":
                for a in ("@len", "@el"):
                    post.heap[a] = fresh("H" + a[1:], post.heap[a].sort())
                continue
            if fld == "@alloc":
                continue
            post.heap[fld] = fresh(fld, post.heap[fld].sort())
            if fld + "?" in post.heap:
                post.heap[fld + "?"] = fresh(fld + "_isnone", post.heap[fld + "?"].sort())
        if C_modifies:
            post.heap["@alloc"] = fresh("H_alloc", post.heap["@alloc"].sort())
            r = fresh("r")
            post.pc.append(safe_forall([r], z3.Implies(st.heap["@alloc"][r], post.heap["@alloc"][r]), patterns=[post.heap["@alloc"][r]]))
            from .engine import heap_typing
            post.pc += heap_typing(X.ctx, post.heap)
        for fld in C_modifies:
            if fld != "@alloc" and C_modifies[fld] != "*":
                post.pc.append(frame_term(X, fld, C_modifies, old_view, post.heap))
        if "@lists" in C_modifies:
            keep_unreachable_lists(X, st, post)
    outs = []
    # exceptional outcomes
    for exc, cond in C.raises.items():
        t = st.cp()
        c = X.truth(X.spec_ev(cond, State(dict(env), dict(st.heap), t.pc, dict(pre.meta))), t)
        if X.feasible(t, c):
            t.pc.append(c)
            outs.append(("x", t, exc))
    # normal outcome
    res = NONE
    if C.result:
        base, arg, opt = parse_type(C.result)
        res = wrap(fresh("res", sort_of(C.result)), C.result, fresh("res?", B) if opt else None)
    if isinstance(res, (Ref, ListV)) and not C.pure:
        a_ = post.heap["@alloc"][res.v]
        post.pc.append(z3.Implies(z3.Not(res.none), a_) if res.none is not None else a_)     # a returned object is allocated
    rec = dict(post.meta.get("callres", {}))
    nm_ = C.qual.split(".")[-1]
    res_rec = res
    if isinstance(res, ListV):
        res_rec = ListV(res.v, res.elem, res.none)
        res_rec.frozen_heap = dict(post.heap)          # callres(...) denotes the returned structure as it was on return
    rec[(nm_, sum(1 for k_ in rec if k_[0] == nm_))] = res_rec
    post.meta = dict(post.meta)
    post.meta["callres"] = rec
    cenv = dict(env)
    cenv["result"] = res
    cst = State(cenv, post.heap, post.pc, {"old_heap": dict(st.heap), "old_env": dict(env)})
    for nm, e in C.ensures:
        post.pc.append(X.truth(X.spec_ev(e, cst), cst))
    for e in C.names_result:
        post.pc.append(X.truth(X.spec_ev(e, cst), cst))
    outs.append(("n", post, res))
    return outs


# ---------------------------------------------------------------------------- list methods
def list_copy(X, st, v):
    if isinstance(v, ConstList):
        return ConstList(v.items)
    if not isinstance(v, ListV):
        raise VCError("copy.copy of non-list")
    return X.new_list(st, v.elem, X.llen(st, v), st.heap["@el"][v.v])


def list_method(X, st, L, name, node):
    n = X.llen(st, L)
    arr = st.heap["@el"][L.v]
    args = [X.ev(a, st) for a in node.args]
    if name == "append":
        (v,) = args
        if isinstance(v, (TupleV, ConstList)):
            raise VCError("append of tuple/list element")
        if L.elem == "?":
            L.elem = ("ref:" + v.cls) if isinstance(v, Ref) else ("list:" + v.elem if isinstance(v, ListV) else ("tok" if isinstance(v, StrV) or type(v).__name__ == "TokV" else "int"))
        X.lset_arr(st, L, z3.Store(arr, n, term_of(v)), n + 1)
        return [("n", st, NONE)]
    if name == "extend":
        (v,) = args
        if isinstance(v, ConstList):
            for x in v.items:
                arr = z3.Store(arr, n, term_of(x))
                n = n + 1
            X.lset_arr(st, L, arr, n)
            return [("n", st, NONE)]
        cat = X.list_concat(st, L, v)
        X.lset_arr(st, L, st.heap["@el"][cat.v], st.heap["@len"][cat.v])
        return [("n", st, NONE)]
    if name == "insert":
        i, v = args
        # Python clamps the index; the code only inserts at 0 <= i <= n
        X.safety("insert position within list", st, z3.And(0 <= i.v, i.v <= n))
        new = fresh("ins", z3.ArraySort(I, I))
        k = fresh("k")
        st.pc.append(safe_forall([k], z3.Implies(z3.And(0 <= k, k <= n), new[k] == z3.If(k < i.v, arr[k], z3.If(k == i.v, term_of(v), arr[k - 1]))), patterns=[new[k]]))
        X.lset_arr(st, L, new, n + 1)
        return [("n", st, NONE)]
    if name == "pop":
        i = args[0].v if args else n - 1
        if args:
            i = z3.If(i < 0, n + i, i)
        X.safety("pop from non-empty list / index in range", st, z3.And(0 <= i, i < n))
        val = wrap(arr[i], L.elem)
        new = fresh("pop", z3.ArraySort(I, I))
        k = fresh("k")
        st.pc.append(safe_forall([k], z3.Implies(z3.And(0 <= k, k < n - 1), new[k] == z3.If(k < i, arr[k], arr[k + 1])), patterns=[new[k]]))
        X.lset_arr(st, L, new, n - 1)
        return [("n", st, val)]
    if name == "remove":
        (v,) = args
        x = term_of(v)
        p_ = fresh("rm")
        j = fresh("j")
        X.safety("list.remove(x): x in list", st, z3.Exists([j], z3.And(0 <= j, j < n, arr[j] == x)))
        st.pc.append(z3.And(0 <= p_, p_ < n, arr[p_] == x, safe_forall([j], z3.Implies(z3.And(0 <= j, j < p_), arr[j] != x), patterns=[arr[j]])))
        new = fresh("rem", z3.ArraySort(I, I))
        k = fresh("k")
        st.pc.append(safe_forall([k], z3.Implies(z3.And(0 <= k, k < n - 1), new[k] == z3.If(k < p_, arr[k], arr[k + 1])), patterns=[new[k]]))
        f_old = w_old = None
        if L.elem == "ref:Message":
            from .specfns import wsum_fn
            f_old = wsum_fn(X, st, L)
            w_old = X._specfn_weight(st, L)
        X.lset_arr(st, L, new, n - 1)
        if f_old is not None:
            f_new = wsum_fn(X, st, L)
            kk = fresh("k")
            st.pc.append(z3.Implies(w_old(p_) == 0, z3.And(safe_forall([kk], z3.Implies(z3.And(0 <= kk, kk <= p_), f_new(kk) == f_old(kk)), patterns=[f_new(kk)]),
                                                           safe_forall([kk], z3.Implies(z3.And(kk >= p_, kk <= n - 1), f_new(kk) == f_old(kk + 1)), patterns=[f_new(kk)]))))
            X.notes.append("L: instance of lemma wsum_remove (removing a non-wait message keeps the wait sum) at list.remove")
        if parse_type(L.elem)[0] != "ref":
            X.notes.append("A: list.remove on a list of scalars compares by value")
        return [("n", st, NONE)]
    if name == "sort":
        return list_sort(X, st, L, node)
    if name == "index":
        return [("n", st, X.ev_Call(node, st))]
    raise VCError(f"list method {name}")


def list_sort(X, st, L, node):
    """assumed contract of list.sort (A): a permutation ordered by the first key component (x.time).
    ghost witness pi: new[k] = old[pi(k)], pi a bijection on 0..n-1."""
    n = X.llen(st, L)
    arr = st.heap["@el"][L.v]
    new = fresh("srt", z3.ArraySort(I, I))
    pi = z3.Function(f"pi!{fresh('p')}", I, I)
    ip = z3.Function(f"ipi!{fresh('p')}", I, I)
    k, j = fresh("k"), fresh("j")
    rng = lambda x: z3.And(0 <= x, x < n)
    st.pc.append(safe_forall([k], z3.Implies(rng(k), z3.And(rng(pi(k)), ip(pi(k)) == k, new[k] == arr[pi(k)])), patterns=[pi(k), new[k]]))
    st.pc.append(safe_forall([k], z3.Implies(rng(k), z3.And(rng(ip(k)), pi(ip(k)) == k)), patterns=[ip(k)]))
    # (consequence of the two facts above, stated with a trigger on the OLD content: every old element is somewhere in the new list)
    st.pc.append(safe_forall([k], z3.Implies(rng(k), z3.And(rng(ip(k)), new[ip(k)] == arr[k])), patterns=[arr[k]]))
    key = None
    for kw in node.keywords:
        if kw.arg == "key":
            key = kw.value
    if key is not None and isinstance(key, ast.Lambda):
        body = key.body
        first = body.elts[0] if isinstance(body, ast.Tuple) else body
        if isinstance(first, ast.Attribute) and isinstance(first.value, ast.Name) and first.value.id == key.args.args[0].arg:
            fld = first.attr
            h = st.heap[fld]
            st.pc.append(safe_forall([k, j], z3.Implies(z3.And(0 <= k, k <= j, j < n), h[new[k]] <= h[new[j]]), patterns=[z3.MultiPattern(new[k], new[j])]))
            st.meta = dict(st.meta)
    X.lset_arr(st, L, new, n)
    X.notes.append("A: list.sort is a permutation ordered by the first key component")
    st.meta.setdefault("sorts", [])
    st.meta["sorts"] = st.meta["sorts"] + [(pi, ip, arr, new, n)]
    return [("n", st, NONE)]
