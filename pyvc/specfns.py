"""Spec-only primitives available inside contract expressions (section 2.3 of DESIGN.md)."""
import ast
import z3
from .values import *
from .engine import State
from .calls import frame_term

SPEC = {}


def spec(f):
    n = f.__name__
    SPEC[n if n.startswith("__") else n.rstrip("_")] = f
    return f


def _lam(X, st, lam, var):
    if not isinstance(lam, ast.Lambda) or len(lam.args.args) != 1:
        raise VCError("quantifier body must be a one-argument lambda")
    st2 = st.cp()
    st2.env[lam.args.args[0].arg] = Num(var)
    return X.truth(X.ev(lam.body, st2), st2), st2


@spec
def forall(X, st, e):
    lo, hi = X.ev(e.args[0], st), X.ev(e.args[1], st)
    bound = st.meta.get("bound")
    los, his = z3.simplify(lo.v), z3.simplify(hi.v)
    if z3.is_int_value(los) and z3.is_int_value(his) and his.as_long() - los.as_long() <= 64:
        out = []
        for k in range(los.as_long(), his.as_long()):
            out.append(_lam(X, st, e.args[2], z3.IntVal(k))[0])
        return BoolV(z3.And(out) if out else TRUE)
    if bound is not None and z3.is_int_value(los):
        out = []
        for k in range(los.as_long(), bound):
            out.append(z3.Implies(k < hi.v, _lam(X, st, e.args[2], z3.IntVal(k))[0]))
        return BoolV(z3.And(out) if out else TRUE)
    j = fresh(e.args[2].args.args[0].arg)
    body, st2 = _lam(X, st, e.args[2], j)
    st.pc += st2.pc[len(st.pc):]
    return BoolV(safe_forall([j], z3.Implies(z3.And(lo.v <= j, j < hi.v), body)))


@spec
def exists(X, st, e):
    lo, hi = X.ev(e.args[0], st), X.ev(e.args[1], st)
    bound = st.meta.get("bound")
    los, his = z3.simplify(lo.v), z3.simplify(hi.v)
    if z3.is_int_value(los) and z3.is_int_value(his) and his.as_long() - los.as_long() <= 64:
        out = [_lam(X, st, e.args[2], z3.IntVal(k))[0] for k in range(los.as_long(), his.as_long())]
        return BoolV(z3.Or(out) if out else FALSE)
    if bound is not None and z3.is_int_value(los):
        out = [z3.And(k < hi.v, _lam(X, st, e.args[2], z3.IntVal(k))[0]) for k in range(los.as_long(), bound)]
        return BoolV(z3.Or(out) if out else FALSE)
    j = fresh(e.args[2].args.args[0].arg)
    body, st2 = _lam(X, st, e.args[2], j)
    st.pc += st2.pc[len(st.pc):]
    return BoolV(z3.Exists([j], z3.And(lo.v <= j, j < hi.v, body)))


@spec
def implies(X, st, e):
    a = X.truth(X.ev(e.args[0], st), st)
    X.guards.append(a)
    try:
        b = X.truth(X.ev(e.args[1], st), st)
    finally:
        X.guards.pop()
    return BoolV(z3.Implies(a, b))


@spec
def iff(X, st, e):
    return BoolV(X.truth(X.ev(e.args[0], st), st) == X.truth(X.ev(e.args[1], st), st))


@spec
def ite(X, st, e):
    return X.ite(X.truth(X.ev(e.args[0], st), st), X.ev(e.args[1], st), X.ev(e.args[2], st))


def _with_heap(st, heap, env=None):
    s = State(dict(env if env is not None else st.env), dict(heap), st.pc, dict(st.meta))
    return s


@spec
def old(X, st, e):
    if "old_heap" not in st.meta:
        raise VCError("old() outside a two-state context")
    env = dict(st.env)
    # parameters refer to their entry values
    for k, v in st.meta.get("old_env", {}).items():
        if k in env and not st.meta.get("old_keep_locals"):
            env[k] = v
    return X.ev(e.args[0], _with_heap(st, st.meta["old_heap"], env))


@spec
def entry(X, st, e):
    """value of a local at loop entry"""
    if isinstance(e.args[0], ast.Name):
        n = e.args[0].id
        if n not in st.meta.get("entry_env", {}):
            raise VCError(f"entry({n}): not bound at loop entry")
        return st.meta["entry_env"][n]
    env = dict(st.env)
    env.update(st.meta.get("entry_env", {}))
    return X.ev(e.args[0], _with_heap(st, st.meta["entry_heap"], env))


@spec
def entry_heap(X, st, e):
    return X.ev(e.args[0], _with_heap(st, st.meta["entry_heap"]))


@spec
def fresh_(X, st, e):
    v = X.ev(e.args[0], st)
    return BoolV(z3.Not(st.meta["old_heap"]["@alloc"][v.v]))


@spec
def allocated(X, st, e):
    v = X.ev(e.args[0], st)
    return BoolV(st.heap["@alloc"][v.v])


@spec
def __frame__(X, st, e):
    field = e.args[0].value
    C = X.contract
    old_state = _with_heap(st, st.meta["old_heap"], st.meta.get("old_env", st.env))
    old_state.meta = dict(st.meta)
    return BoolV(frame_term(X, field, C.modifies if C else {}, old_state, st.heap))


@spec
def is_none(X, st, e):
    return BoolV(X.ev(e.args[0], st).none_term())


@spec
def wsum(X, st, e):
    """wsum(L, k): sum of `time` over WAIT messages in L[0:k], in the heap of evaluation.
    Defined by recursion (axioms, pattern-guarded); non-negativity/monotonicity are separate lemmas."""
    L = X.ev(e.args[0], st)
    k = X.ev(e.args[1], st)
    kind = e.args[2].value if len(e.args) > 2 else "wait"
    f = wsum_fn(X, st, L, kind)
    # E-matching cannot see that f(n + 2) is f((n + 1) + 1): the last two unfoldings below the queried index are given as ground facts
    wf = [c[2] for c in X._specfn.values() if c[0] is f][0]
    ks = z3.simplify(k.v)
    if not z3.is_int_value(ks) and z3.is_app_of(ks, z3.Z3_OP_ADD):
        have = {p.get_id() for p in st.pc}
        for back in (1, 2):
            kt = z3.simplify(ks - back)
            inst = z3.Implies(kt >= 0, f(kt + 1) == f(kt) + wf(kt))
            if inst.get_id() not in have:
                st.pc.append(inst)
    return Num(f(k.v))


def wsum_fn(X, st, L, kind="wait"):
    """one uninterpreted function per (kind, element array, time array, type array); recursion axioms; plus, for every pair of
    such functions of the same kind, the instances s=0,1 of lemma wsum_ext (proved by induction in contracts/lemmas.py).
    kind: 'wait'  -> time of WAIT messages (duration of a relative list)
          'time'  -> time of every message that has one (MidiMessage lists)
          'mtime' -> m_time of mido messages (delta times written to a file track)"""
    wait = X.ctx.enums["MessageType"].index("WAIT")
    el = st.heap["@el"][L.v]
    if kind == "time":
        tm, ty = st.heap["time"], st.heap["time?"]
    else:
        tm, ty = st.heap["time"], st.heap["message_type"]
    key = ("wsum" + kind, el.get_id(), tm.get_id(), ty.get_id())
    cache = X.__dict__.setdefault("_specfn", {})
    pairs = X.__dict__.setdefault("_specfn_pairs", {})
    if key not in cache:
        f = z3.Function(f"wsum{kind}{len(cache)}", I, I)
        k = z3.Int("k!ws")
        if kind == "wait":
            wf = lambda kk: z3.If(ty[el[kk]] == wait, tm[el[kk]], 0)
        else:
            wf = lambda kk: z3.If(ty[el[kk]], 0, tm[el[kk]])       # ty is the is-None flag array here
        ax = [f(0) == 0, safe_forall([k], z3.Implies(k >= 0, f(k + 1) == f(k) + wf(k)), patterns=[f(k + 1)])]
        cache[key] = (f, ax, wf)
    f, ax, wf = cache[key]
    have = {p.get_id() for p in st.pc}
    if ax[1].get_id() not in have:
        # lemma wsum_ext (instances s = 0, 1) against every wait-sum function of the same kind that this state already talks about
        n, j = z3.Int("n!ws"), z3.Int("j!ws")
        for okey, (g, gax, wg) in list(cache.items()):
            if okey[0] != key[0] or okey == key or gax[1].get_id() not in have:
                continue
            pk = (okey, key)
            if pk not in pairs:
                pax = []
                for (fa, wa, fb, wb) in ((g, wg, f, wf), (f, wf, g, wg)):
                    for s_ in (0, 1):
                        hyp = safe_forall([j], z3.Implies(z3.And(0 <= j, j < n), wa(j) == wb(j + s_)))
                        if s_ == 1:
                            hyp = z3.And(hyp, wb(0) == 0)
                        pax.append(safe_forall([n], z3.Implies(z3.And(n >= 0, hyp), fb(n + s_) == fa(n)), patterns=[fa(n)] if s_ == 0 else [fa(n), fb(n + 1)]))
                pairs[pk] = pax
                X.notes.append("L: instances of lemma wsum_ext relate wait-sums across heap states")
            st.pc.extend(pairs[pk])
        st.pc.extend(ax)
    return f


@spec
def lastidx(X, st, e):
    """lastidx(L, k, 'TYPE'): index of the last message of that type in L[0:k], or -1 (in the heap of evaluation).
    Recursion axioms; facts -1 <= f(k) < k and type(L[f(k)]) == TYPE when f(k) >= 0 are instances of lemma lastidx_range; pairs of such
    functions are related by lemma lastidx_ext (same types on a prefix give the same index)."""
    L = X.ev(e.args[0], st)
    k = X.ev(e.args[1], st)
    tname = e.args[2].value
    T = X.ctx.enums["MessageType"].index(tname)
    el, ty, tyn = st.heap["@el"][L.v], st.heap["message_type"], st.heap["message_type?"]
    key = ("last" + tname, el.get_id(), ty.get_id(), tyn.get_id())
    cache = X.__dict__.setdefault("_specfn", {})
    pairs = X.__dict__.setdefault("_specfn_pairs", {})
    if key not in cache:
        f = z3.Function(f"last{tname}{len(cache)}", I, I)
        kk = z3.Int("k!li")
        hit = lambda j: z3.And(z3.Not(tyn[el[j]]), ty[el[j]] == T)
        ax = [f(0) == -1, safe_forall([kk], z3.Implies(kk >= 0, f(kk + 1) == z3.If(hit(kk), kk, f(kk))), patterns=[f(kk + 1)]),
              safe_forall([kk], z3.Implies(kk >= 0, z3.And(-1 <= f(kk), f(kk) < kk, z3.Implies(f(kk) >= 0, hit(f(kk))))), patterns=[f(kk)])]
        cache[key] = (f, ax, hit)
        X.notes.append("L: instances of lemmas lastidx_range / lastidx_ext for the last-signature index")
    f, ax, hit = cache[key]
    have = {p.get_id() for p in st.pc}
    if ax[1].get_id() not in have:
        n, j = z3.Int("n!li"), z3.Int("j!li")
        for okey, (g, gax, ghit) in list(cache.items()):
            if okey[0] != key[0] or okey == key or gax[1].get_id() not in have:
                continue
            pk = (okey, key)
            if pk not in pairs:
                pax = []
                for (fa, ha, fb, hb) in ((g, ghit, f, hit), (f, hit, g, ghit)):
                    hyp = safe_forall([j], z3.Implies(z3.And(0 <= j, j < n), ha(j) == hb(j)))
                    pax.append(safe_forall([n], z3.Implies(z3.And(n >= 0, hyp), fb(n) == fa(n)), patterns=[fa(n)]))
                pairs[pk] = pax
            st.pc.extend(pairs[pk])
        st.pc.extend(ax)
    ks = z3.simplify(k.v)
    if not z3.is_int_value(ks) and z3.is_app_of(ks, z3.Z3_OP_ADD):
        have = {p.get_id() for p in st.pc}
        for back in (1, 2):
            kt = z3.simplify(ks - back)
            inst = z3.Implies(kt >= 0, f(kt + 1) == z3.If(hit(kt), kt, f(kt)))
            if inst.get_id() not in have:
                st.pc.append(inst)
    return Num(f(k.v))


@spec
def wsum_mono(X, st, e):
    """lemma instance (proved by induction in lemmas.py): waits non-negative on L[0:n] => wsum monotone on 0..n"""
    L = X.ev(e.args[0], st)
    f = wsum_fn(X, st, L)
    n = X.llen(st, L)
    a, b, k = fresh("a"), fresh("b"), fresh("k")
    wait = X.ctx.enums["MessageType"].index("WAIT")
    el = st.heap["@el"][L.v]
    nonneg = safe_forall([k], z3.Implies(z3.And(0 <= k, k < n, st.heap["message_type"][el[k]] == wait), st.heap["time"][el[k]] >= 0))
    mono = safe_forall([a, b], z3.Implies(z3.And(0 <= a, a <= b, b <= n), f(a) <= f(b)), patterns=[z3.MultiPattern(f(a), f(b))])
    return BoolV(z3.Implies(nonneg, mono))


@spec
def divides(X, st, e):
    a, b = X.ev(e.args[0], st), X.ev(e.args[1], st)
    return BoolV(b.v % a.v == 0)


@spec
def isinf(X, st, e):
    v = X.ev(e.args[0], st)
    return BoolV(v.inf if getattr(v, "inf", None) is not None else FALSE)


@spec
def val(X, st, e):
    v = X.ev(e.args[0], st)
    return Num(v.v, real=v.real)


@spec
def distinct(X, st, e):
    """no object occurs twice in list L  (single two-variable quantifier with an explicit multi-pattern)"""
    L = X.ev(e.args[0], st)
    el, n = st.heap["@el"][L.v], X.llen(st, L)
    bound = st.meta.get("bound")
    if bound is not None:
        return BoolV(z3.And([z3.Implies(z3.And(a < n, b < n), el[a] != el[b]) for a in range(bound) for b in range(a + 1, bound)] or [TRUE]))
    a, b = fresh("da"), fresh("db")
    return BoolV(safe_forall([a, b], z3.Implies(z3.And(0 <= a, a < b, b < n), el[a] != el[b]), patterns=[z3.MultiPattern(el[a], el[b])]))


@spec
def sorted_by_time(X, st, e):
    L = X.ev(e.args[0], st)
    el, n, tm = st.heap["@el"][L.v], X.llen(st, L), st.heap["time"]
    bound = st.meta.get("bound")
    if bound is not None:
        return BoolV(z3.And([z3.Implies(z3.And(b < n), tm[el[a]] <= tm[el[b]]) for a in range(bound) for b in range(a + 1, bound)] or [TRUE]))
    a, b = fresh("sa"), fresh("sb")
    return BoolV(safe_forall([a, b], z3.Implies(z3.And(0 <= a, a <= b, b < n), tm[el[a]] <= tm[el[b]]), patterns=[z3.MultiPattern(el[a], el[b])]))


@spec
def when(X, st, e):
    return CondDes(X.truth(X.ev(e.args[0], st), st), X.ev(e.args[1], st))


@spec
def loop_index(X, st, e):
    """index of the current iteration of the named for-loop (available inside its body and after it)"""
    n = "@i_" + e.args[0].value
    if n not in st.env:
        raise VCError(f"loop_index({e.args[0].value}): not inside / after that loop")
    return st.env[n]


@spec
def __loopframe__(X, st, e):
    """every list allocated at loop entry, other than the named local lists, has the length and content it had at loop entry"""
    h0 = st.meta["entry_heap"]
    l = fresh("l")
    names = [a.value for a in e.args]
    excl = []
    for n in names:
        v = st.meta.get("entry_env", {}).get(n)
        if isinstance(v, ListV):
            excl.append(l != v.v)
        v2 = st.env.get(n)
        if isinstance(v2, ListV):
            excl.append(l != v2.v)
    same = z3.And(st.heap["@len"][l] == h0["@len"][l], st.heap["@el"][l] == h0["@el"][l])
    return BoolV(safe_forall([l], z3.Implies(z3.And(h0["@alloc"][l], *excl), same), patterns=[st.heap["@len"][l], st.heap["@el"][l]]))


@spec
def callres(X, st, e):
    """the value returned by the k-th call (on this path) of the contracted callee with that name"""
    key = (e.args[0].value, e.args[1].value)
    rec = st.meta.get("callres", {})
    if key not in rec:
        # no such call on this path: an arbitrary value of the callee's result type (such uses sit under an implication)
        for q, c in X.ctx.contracts.items():
            if q.split(".")[-1] == key[0] and c.result:
                return wrap(fresh("nocall", sort_of(c.result)), c.result, fresh("nocall_isnone", B) if parse_type(c.result)[2] else None)
        raise VCError(f"callres{key}: no such call on this path")
    return rec[key]


_EQFN = z3.Function("abs_equals_result", I, I, B, B, B, B, B)


@spec
def abs_equals_result(X, st, e):
    """the value AbsoluteSequence.equals returns for these two sequences and these four flags (a name, not a definition)"""
    a, b = X.ev(e.args[0], st), X.ev(e.args[1], st)
    fl = [X.truth(X.ev(x, st), st) for x in e.args[2:6]]
    return BoolV(_EQFN(a.v, b.v, *fl))
