"""Symbolic values of the pyvc executor.

Python `int` is SMT Int (exact).  `float` is SMT Real plus the flag `real=True`
(assumption FLOAT-EXACT).  Every value may carry `none` (a z3 Bool, or None = "never None").
"""
import z3

I = z3.IntSort()
B = z3.BoolSort()
R = z3.RealSort()
FALSE = z3.BoolVal(False)
TRUE = z3.BoolVal(True)


class VCError(Exception):
    """construct outside the verified subset / contract mismatch -> function undecided, never a violation"""


_cnt = [0]


def fresh(name, sort=I):
    _cnt[0] += 1
    return z3.Const(f"{name}!{_cnt[0]}", sort)


class Val:
    none = None  # z3 Bool or None

    def maybe_none(self):
        return self.none is not None

    def none_term(self):
        return self.none if self.none is not None else FALSE


class NoneV(Val):
    none = TRUE

    def __repr__(self):
        return "None"


NONE = NoneV()


class Num(Val):
    """int or float (real=True); inf: z3 Bool or None (only for values that may be math.inf)"""

    def __init__(self, v, none=None, real=False, inf=None):
        if isinstance(v, int) and not isinstance(v, bool):
            v = z3.RealVal(v) if real else z3.IntVal(v)
        self.v, self.none, self.real, self.inf = v, none, real, inf

    def as_real(self):
        return self.v if self.real else z3.ToReal(self.v)

    def __repr__(self):
        return f"Num({self.v}{' real' if self.real else ''}{' ?' if self.none is not None else ''})"


class BoolV(Val):
    def __init__(self, v, none=None):
        if isinstance(v, bool):
            v = z3.BoolVal(v)
        self.v, self.none = v, none

    def __repr__(self):
        return f"Bool({self.v})"


class EnumV(Val):
    def __init__(self, v, enum, none=None):
        if isinstance(v, int):
            v = z3.IntVal(v)
        self.v, self.enum, self.none = v, enum, none

    def __repr__(self):
        return f"Enum[{self.enum}]({self.v})"


class Ref(Val):
    def __init__(self, v, cls, none=None):
        self.v, self.cls, self.none = v, cls, none

    def __repr__(self):
        return f"Ref[{self.cls}]({self.v})"


class ListV(Val):
    """reference to a heap list; `elem` is the element type descriptor"""

    def __init__(self, v, elem, none=None):
        self.v, self.elem, self.none = v, elem, none

    def __repr__(self):
        return f"List[{self.elem}]({self.v})"


class TupleV(Val):
    def __init__(self, items):
        self.items = list(items)

    def __repr__(self):
        return f"Tuple{self.items}"


class ConstList(Val):
    """a Python-level list of values with concrete length (class-level tables, literal lists, sorted token parts)"""

    def __init__(self, items):
        self.items = list(items)

    def __repr__(self):
        return f"CList{self.items}"


class ConstDict(Val):
    def __init__(self, pairs):
        self.pairs = list(pairs)  # [(key Val, value Val)]


class StrV(Val):
    """structured string: atoms ('lit', str) | ('fmt', Num, width)  (assumption STR)"""

    def __init__(self, atoms):
        out = []
        for a in atoms:
            if a[0] == "lit" and a[1] == "":
                continue
            if a[0] == "lit" and out and out[-1][0] == "lit":
                out[-1] = ("lit", out[-1][1] + a[1])
            else:
                out.append(a)
        self.atoms = out

    def const(self):
        if not self.atoms:
            return ""
        if len(self.atoms) == 1 and self.atoms[0][0] == "lit":
            return self.atoms[0][1]
        return None

    def shape(self):
        return tuple(a[1] if a[0] == "lit" else ("fmt", a[2], a[1].real) for a in self.atoms)

    def __repr__(self):
        return "Str(" + "".join(a[1] if a[0] == "lit" else "{%s:0%s}" % (a[1].v, a[2]) for a in self.atoms) + ")"


class Closure(Val):
    def __init__(self, node, env):
        self.node, self.env = node, env


class Opaque(Val):
    """something the executor carries around but never inspects (e.g. a logger)"""

    def __init__(self, what):
        self.what = what


# ---------------------------------------------------------------- type descriptors
def parse_type(t):
    """'int', 'int?', 'bool', 'real', 'enum:Key?', 'ref:Message', 'list:ref:Message', 'list:int' -> (base, arg, opt)"""
    if t == "?":
        return "?", None, False
    opt = t.endswith("?")
    if opt:
        t = t[:-1]
    if ":" in t:
        base, arg = t.split(":", 1)
    else:
        base, arg = t, None
    return base, arg, opt


def sort_of(t):
    base, _, _ = parse_type(t)
    return {"int": I, "bool": B, "real": R, "enum": I, "ref": I, "list": I, "tok": I, "?": I, "dict": I, "absdict": I}[base]


def wrap(term, t, none=None):
    """wrap a z3 term read from the heap / created fresh as a value of type t"""
    base, arg, opt = parse_type(t)
    n = none if opt else None
    if base == "int":
        return Num(term, none=n)
    if base == "real":
        return Num(term, none=n, real=True)
    if base == "bool":
        return BoolV(term, none=n)
    if base == "enum":
        return EnumV(term, arg, none=n)
    if base == "ref":
        return Ref(term, arg, none=n)
    if base == "list":
        return ListV(term, arg, none=n)
    if base == "?":
        return Num(term)               # element type of a still-empty list: nothing can be read from it anyway
    if base == "tok":
        from .tokens import TokV, tok_dec
        return TokV(tok_dec(term))
    raise VCError(f"unknown type {t}")


def term_of(v):
    if isinstance(v, StrV):
        from .tokens import tok_of_str, tok_enc
        return tok_enc(tok_of_str(v))
    if type(v).__name__ == "TokV":
        from .tokens import tok_enc
        return tok_enc(v.term)
    if isinstance(v, (Num, BoolV, EnumV, Ref, ListV)):
        return v.v
    raise VCError(f"value {v!r} has no single term")


def fresh_like(v, name="h"):
    n = fresh(name + "_isnone", B) if (v.none is not None and not isinstance(v, NoneV)) else None
    if isinstance(v, Num):
        return Num(fresh(name, R if v.real else I), none=n, real=v.real, inf=(fresh(name + "@inf", B) if v.inf is not None else None))
    if isinstance(v, BoolV):
        return BoolV(fresh(name, B), none=n)
    if isinstance(v, EnumV):
        return EnumV(fresh(name), v.enum, none=n)
    if isinstance(v, Ref):
        return Ref(fresh(name), v.cls, none=n)
    if isinstance(v, ListV):
        return ListV(fresh(name), v.elem, none=n)
    if isinstance(v, TupleV):
        return TupleV([fresh_like(x, name) for x in v.items])
    if isinstance(v, (NoneV, Opaque, Closure, ConstList, ConstDict, StrV, CondDes)) or type(v).__name__ in ("TokV", "DictObj", "AbsDictV"):
        return v
    raise VCError(f"cannot havoc {v!r}")


def join_shape(a, b):
    """a prototype value general enough for both a and b (used to havoc loop-assigned locals)"""
    if a is None:
        return b
    if b is None:
        return a
    if isinstance(a, NoneV) and isinstance(b, NoneV):
        return a
    if isinstance(a, NoneV):
        a, b = b, a
    if isinstance(b, NoneV):
        c = fresh_like(a)
        if c.none is None and not isinstance(c, (TupleV, ConstList, StrV)):
            c.none = fresh("n", B)
        return c
    if type(a) is not type(b):
        if isinstance(a, (ConstList, StrV, ConstDict)) or isinstance(b, (ConstList, StrV, ConstDict)):
            return b
        raise VCError(f"loop-carried variable changes kind: {a!r} vs {b!r}")
    c = fresh_like(a)
    if isinstance(a, Num):
        c.real = a.real or b.real
        if c.real and not a.real:
            c.v = fresh("h", R)
        if (a.inf is not None or b.inf is not None) and c.inf is None:
            c.inf = fresh("inf", B)
    if (a.none is not None or b.none is not None) and c.none is None and not isinstance(c, (TupleV, ConstList, StrV)):
        c.none = fresh("n", B)
    return c


class CondDes(Val):
    """conditional modifies-designator: `when(cond, designator)`"""

    def __init__(self, cond, val):
        self.cond, self.val = cond, val


class DictObj(Val):
    """Python-level dict with constant string keys: key -> (present: z3 Bool, value: Val).  Immutable value; stores rebind."""

    def __init__(self, entries=None, none=None):
        self.entries = dict(entries or {})
        self.none = none

    def get(self, key):
        return self.entries.get(key)

    def with_(self, key, val):
        e = dict(self.entries)
        e[key] = (TRUE, val)
        return DictObj(e, self.none)

    def __repr__(self):
        return "Dict{" + ", ".join(self.entries) + "}"


def _has_ite(t):
    """would z3 reject this term as a pattern (select over a store rewrites to an if-then-else)?"""
    try:
        terms = t.children() if z3.is_app(t) and t.decl().name() == "pattern" else [t]
    except Exception:
        terms = [t]
    stack = []
    for x in terms:
        try:
            stack.append(z3.simplify(x))
        except Exception:
            stack.append(x)
    seen = set()
    while stack:
        x = stack.pop()
        if x.get_id() in seen:
            continue
        seen.add(x.get_id())
        if z3.is_app_of(x, z3.Z3_OP_ITE):
            return True
        stack.extend(x.children())
    return False


def safe_forall(vs, body, patterns=None):
    """z3.ForAll with the given patterns if z3 accepts them (a select over a store chain may be rewritten to an ite,
    which is not allowed in patterns), with inferred patterns otherwise"""
    if patterns:
        patterns = [p_ for p_ in patterns if not _has_ite(p_)]
    if patterns:
        try:
            return z3.ForAll(vs, body, patterns=patterns)
        except z3.Z3Exception:
            good = []
            for p_ in patterns:
                try:
                    z3.ForAll(vs, body, patterns=[p_])
                    good.append(p_)
                except z3.Z3Exception:
                    pass
            if good:
                return z3.ForAll(vs, body, patterns=good)
    return z3.ForAll(vs, body)


class AbsDictV(Val):
    """abstract dict (DESIGN 11.9): its content is not tracked.  Every read yields an arbitrary value of the declared value type that
    satisfies the dict's refinement predicate; every store is checked against type and predicate.  Sound for clauses that hold for
    every dict content (an over-approximation of the real dict)."""

    def __init__(self, vtype, root):
        self.vtype, self.root = vtype, root

    def __repr__(self):
        return f"AbsDict[{self.vtype}]<{self.root}>"


class ZipV(Val):
    """zip(a, b) of two heap lists, only as a for-loop iterable"""

    def __init__(self, lists):
        self.lists = list(lists)
