"""Per-property orchestration: deductive obligations (U/F/L), bounded stand-ins (B), replay, known findings,
evidence, exit codes (0 held / 1 violation / 2 undecided / 3 checker error)."""
import json
import os
import subprocess
import sys
import time
import z3

ROOT = os.path.dirname(os.path.dirname(os.path.abspath(__file__)))
sys.path.insert(0, ROOT)
from pyvc import consts as consts_mod
from pyvc.verify import verify_many, build_ctx, verify, TIMEOUT_MS

PY = consts_mod.PY


def solve_lemma(assumptions, goal):
    t0 = time.time()
    g = z3.simplify(goal) if isinstance(goal, z3.ExprRef) else z3.BoolVal(bool(goal))
    if z3.is_true(g):
        return "unsat", 0.0, "closed"
    s = z3.Solver()
    s.set("timeout", TIMEOUT_MS)
    s.add(*assumptions)
    s.add(z3.Not(g))
    r = s.check()
    LAST_LEMMA_MODEL[0] = None
    if r == z3.sat:
        try:
            m = s.model()
            LAST_LEMMA_MODEL[0] = {str(d): str(m[d]) for d in m.decls() if d.arity() == 0 and "!" not in str(d)}
        except Exception:
            pass
    return ("unsat" if r == z3.unsat else "sat" if r == z3.sat else "unknown"), time.time() - t0, "z3"


LAST_LEMMA_MODEL = [None]


def run_lemmas(ctx, prop):
    out = []
    for name, (props, fn) in ctx.lemmas.items():
        if prop not in props:
            continue
        try:
            goals = fn(ctx)
        except (KeyError, ValueError) as e:
            # a lemma over source expressions whose statements are no longer found (e.g. after a refactoring): undecided, never an alarm
            out.append({"name": f"lemma::{name}", "kind": "lemma", "result": "unknown", "text": "source expressions not found: " + repr(e), "time_s": 0, "backend": "-"})
            continue
        except Exception as e:
            out.append({"name": f"lemma::{name}", "kind": "lemma", "result": "error", "text": repr(e), "time_s": 0, "backend": "-"})
            continue
        for gname, assumptions, goal, text in goals:
            r, dt, be = solve_lemma(assumptions, goal)
            rec = {"name": f"lemma::{name}::{gname}", "kind": "lemma", "result": r, "time_s": round(dt, 4), "backend": be, "text": text}
            if r == "sat" and LAST_LEMMA_MODEL[0]:
                rec["model"] = LAST_LEMMA_MODEL[0]
            out.append(rec)
    return out


def replay_jobs(repo, jobs):
    """jobs: [{qual, params, inputs, contract}] -> results from the real code"""
    if not jobs:
        return []
    p = subprocess.run([PY, os.path.join(ROOT, "pyvc", "replay_runner.py")], input=json.dumps({"repo": repo, "jobs": jobs}),
                       capture_output=True, text=True, timeout=600)
    if p.returncode != 0:
        return [{"pre_ok": False, "error": p.stderr[-500:]}] * len(jobs)
    return json.loads(p.stdout.strip().splitlines()[-1])


def contract_json(C, fn_params):
    return {"requires": C.requires, "ensures": [[n, e] for n, e in C.ensures], "raises": C.raises}


def try_replay(ctx, repo, res):
    """for a refuted function: models (and bounded re-posed models) replayed on the real code.
    returns (replayed: dict|None, tried: int)"""
    qual = res["qual"]
    C = ctx.contracts[qual]
    fn, _ = ctx.sources.find(qual.split("#")[0])
    params = [a.arg for a in fn.args.args]
    cands = []
    for o in res["obligations"]:
        if o["result"] == "sat" and o.get("model") and "decode_error" not in o["model"]:
            cands.append((o["name"], o["model"]))
    # re-pose with concrete list lengths 0..3 (quantifier-free) to obtain models where the solver gave none
    t_start = time.time()
    if len(cands) < 3 and not C.cases:      # (case-split contracts are too large to re-pose; their failing inputs come from the bounded tier)
        for n in range(0, 4):
            if time.time() - t_start > 240:
                break
            r2 = verify(qual, repo, ctx=ctx, bound=n, fast=True)
            for o in r2["obligations"]:
                if o["result"] == "sat" and o.get("model") and "decode_error" not in o["model"]:
                    cands.append((o["name"] + f"@len={n}", o["model"]))
            if len(cands) >= 8:
                break
    jobs = [{"qual": qual.split("#")[0], "params": params, "inputs": m, "contract": contract_json(C, params)} for _, m in cands[:24]]
    results = replay_jobs(repo, jobs)
    for (name, m), r in zip(cands, results):
        if r.get("pre_ok") and r.get("failed"):
            return {"obligation": name, "input": m, "observed": r}, len(jobs)
    return None, len(jobs)


def run_bounded(prop, tier, seed, repo):
    script = os.path.join(ROOT, "bounded", "run.py")
    if not os.path.exists(script):
        return None
    env = dict(os.environ, REPO=repo, VERIF_SEED=str(seed), VERIF_TIER=tier)
    p = subprocess.run([PY, script, prop, "--tier", tier, "--seed", str(seed)], capture_output=True, text=True, env=env, timeout=7200)
    try:
        return json.loads(p.stdout.strip().splitlines()[-1])
    except Exception:
        return {"error": (p.stderr or p.stdout)[-1500:], "evaluations": 0, "violations": [], "checks": []}


def load_known():
    p = os.path.join(ROOT, "KNOWN_FINDINGS.json")
    if not os.path.exists(p):
        return []
    return [f for f in json.load(open(p)).get("findings", [])]


def check_property(prop, tier="quick", seed=0, repo=None, spec=None):
    """spec: dict(level, functions=[quals]|None, explanation, assumptions, bounded=bool)"""
    t0 = time.time()
    repo = repo or consts_mod.REPO
    lines = []
    try:
        ctx = build_ctx(repo)
    except Exception as e:
        print(f"CHECKER-ERROR property={prop} cannot load the repository: {e}")
        return 3
    quals = [q for q, c in ctx.contracts.items() if prop in c.props and not c.trusted and not q.endswith("#loops")]
    skipped_quick = [q for q in quals if ctx.contracts[q].thorough_only and tier != "thorough"]
    quals = [q for q in quals if q not in skipped_quick]
    results = verify_many(quals, repo, second_solver=(tier == "thorough")) if quals else []
    lem = run_lemmas(ctx, prop)
    if spec.get("tags"):
        from pyvc.tags import Analysis
        try:
            for o in Analysis(ctx.sources, ctx.consts).run():
                lem.append({"name": o["name"], "kind": "tag", "result": "unsat" if o["ok"] is True else "sat" if o["ok"] is False else "unknown",
                            "time_s": 0.0, "backend": "tag-lattice", "text": f"{o['function']}: the value is int-tagged ({o['text']})", "line": o["line"]})
        except Exception as e:
            lem.append({"name": "tag-analysis", "kind": "tag", "result": "error", "text": repr(e), "time_s": 0, "backend": "-"})
    bounded = run_bounded(prop, tier, seed, repo) if spec.get("bounded", True) else None
    known = [k for k in load_known() if k.get("property") == prop and k.get("status", "open") == "open"]

    obligations = [o for r in results for o in r["obligations"]] + lem
    n_obl = len(obligations)
    n_dis = sum(1 for o in obligations if o["result"] == "unsat")
    refuted = [r for r in results if r["status"] == "refuted"]
    # an undecided obligation may still hide a real failure: look for a replaying input with list lengths fixed to 0..3
    for r in results:
        if r["status"] == "undecided" and r["obligations"] and not r.get("error"):
            rp, tried = try_replay(ctx, repo, r)
            if rp:
                r["status"] = "refuted"
                r["replayed"] = rp
                for o in r["obligations"]:
                    if o["result"] == "unknown":
                        o["result"] = "sat"
                        o["backend"] = "bounded-instance+replay"
                refuted.append(r)
    undecided = [r for r in results if r["status"] == "undecided"] + [{"qual": o["name"], "error": "lemma " + o["result"]} for o in lem if o["result"] == "unknown"]
    errors = [r for r in results if r["status"] == "error"] + [{"qual": o["name"], "error": o["text"]} for o in lem if o["result"] == "error"]
    lemma_refuted = [o for o in lem if o["result"] == "sat"]

    os.makedirs(os.path.join(ROOT, "replays"), exist_ok=True)
    violations = []
    known_hit = []

    def is_known(kind, key, witness=None):
        for k in known:
            m = k.get("match", {})
            if kind == "obligation" and any(key.startswith(pfx) for pfx in m.get("obligations", [])):
                return k
            if kind == "bounded" and key in m.get("bounded_classes", []):
                return k
        return None

    # ---- bounded violations
    bviol = (bounded or {}).get("violations", []) if bounded else []
    for n, v in enumerate(bviol):
        k = is_known("bounded", v.get("klass", ""))
        if k:
            known_hit.append((k, v))
            continue
        path = os.path.join("replays", f"{prop}-bounded-{v.get('check', 'x')}-{n}.json")
        json.dump({"property": prop, "kind": "bounded", "check": v.get("check"), "klass": v.get("klass"), "input": v.get("input"),
                   "observed": v.get("observed"), "replay": f"{PY} bounded/run.py {prop} --replay {path}"}, open(os.path.join(ROOT, path), "w"), indent=1)
        violations.append((path, f"bounded check {v.get('check')} failed on the real code: {str(v.get('observed'))[:220]}", True))
        if len(violations) >= 3:
            break
    # ---- refuted obligations
    for r in refuted:
        failed = [o for o in r["obligations"] if o["result"] == "sat"]
        fresh_failed = [o for o in failed if not is_known("obligation", o["name"])]
        for o in failed:
            k = is_known("obligation", o["name"])
            if k:
                known_hit.append((k, {"obligation": o["name"]}))
        if not fresh_failed:
            continue
        rp, tried = (r["replayed"], 1) if r.get("replayed") else try_replay(ctx, repo, r)
        name = fresh_failed[0]["name"]
        safe = name.replace("/", "_").replace(":", "_").replace("[", "_").replace("]", "_")[:120]
        path = os.path.join("replays", f"{prop}-{safe}.json")
        doc = {"property": prop, "kind": "obligation", "function": r["qual"], "failed_obligations": [{"name": o["name"], "clause": o.get("text"), "line": o.get("line"), "backend": o.get("backend")} for o in fresh_failed],
               "file": r.get("file"), "file_sha256": r.get("file_sha256"), "models_replayed": tried}
        if rp:
            doc.update({"input": rp["input"], "observed_on_real_code": rp["observed"], "model_of": rp["obligation"],
                        "replay": f"./vcheck replay {path}"})
            json.dump(doc, open(os.path.join(ROOT, path), "w"), indent=1)
            violations.append((path, f"{name}: real code fails {rp['observed'].get('failed')}", True))
        else:
            # a bounded counterexample for the same property stands in as the failing input, if there is one
            doc["solver_output"] = [{"name": o["name"], "result": o["result"], "model": o.get("model")} for o in fresh_failed[:5]]
            doc["note"] = "no model of the failed obligation reproduced on the real code (the obligation discharged on the unchanged tree)"
            json.dump(doc, open(os.path.join(ROOT, path), "w"), indent=1)
            violations.append((path, f"{name}", any(v[2] for v in violations)))
    for o in lemma_refuted:
        path = os.path.join("replays", f"{prop}-{o['name'].replace(':', '_').replace('/', '_').replace(' ', '_')}.json")
        json.dump({"property": prop, "kind": "lemma", "failed_obligations": [o]}, open(os.path.join(ROOT, path), "w"), indent=1)
        violations.append((path, o["name"], False))

    # ---- evidence
    level = spec["level"]
    by_backend = {}
    for o in obligations:
        if o["result"] == "unsat":
            by_backend[o.get("backend", "z3")] = by_backend.get(o.get("backend", "z3"), 0) + 1
    times = [o.get("time_s", 0) for o in obligations]
    assumptions = list(spec.get("assumptions", []))
    for r in results:
        for n in r.get("notes", []):
            if n not in assumptions:
                assumptions.append(n)
    trusted = [q for q, c in ctx.contracts.items() if c.trusted and prop in c.props]
    for q in trusted:
        assumptions.append(f"A: assumed contract of {q}: {ctx.contracts[q].note}")
    cov = {
        "obligations": n_obl, "discharged": n_dis,
        "checker_cmd": f"./vcheck {prop} --tier {tier}",
        "trusted_base": ["z3 %s (python API)" % z3.get_version_string(), "cvc5 / z3 CLI as fall-back", "pyvc VC generator (this repository)", "CPython ast module",
                         "FLOAT-EXACT, STR and library models listed under assumptions"],
        "functions_under_contract": [{"qual": r["qual"], "file": r.get("file"), "file_sha256": r.get("file_sha256"), "ast_hash": r.get("ast_hash"), "status": r["status"],
                                      "obligations": len(r["obligations"]), "exits": r.get("exits"), "loops_with_invariant": r.get("loops"), "inlined": r.get("inlined"),
                                      "callee_contracts": r.get("callee_contracts"), "wall_s": r.get("wall_s"), "error": r.get("error")} for r in results],
        "lemmas": [{"name": o["name"], "result": o["result"], "text": o.get("text")} for o in lem],
        "by_backend": by_backend, "solver_time_s": {"sum": round(sum(times), 3), "max": round(max(times or [0]), 3)},
        "undecided": [{"what": u["qual"], "why": u.get("error")} for u in undecided],
        "not_run_in_this_tier": [{"qual": q, "why": "contract marked thorough_only (too slow for the per-change check); run ./vcheck %s --tier thorough" % prop} for q in skipped_quick],
        "known_findings_matched": [k["id"] for k, _ in known_hit],
        "samples": [{"obligation": o["name"], "clause": o.get("text"), "result": o["result"], "backend": o.get("backend")} for o in obligations[:6]],
        "explanation": spec.get("explanation", ""),
        "vacuity": {r["qual"]: {"cover_pre": r.get("cover_pre"), "normal_exits": r.get("normal_exits")} for r in results},
    }
    if bounded is not None:
        cov["bounded"] = {k: bounded.get(k) for k in ("checks", "rule", "bound", "error") if k in bounded}
        cov["evaluations"] = int(bounded.get("evaluations", 0))
        cov["distinct_nontrivial"] = int(bounded.get("distinct_nontrivial", 0))
        cov["rule"] = bounded.get("rule", "")
        cov["samples"] = cov["samples"] + [{"bounded_input": s} for s in bounded.get("samples", [])[:4]]
        cov["exhaustive"] = False
    ev = {"property_id": prop, "tier": tier, "seed": int(seed), "level": level, "coverage": cov, "assumptions": assumptions,
          "wall_s": round(time.time() - t0, 2), "violations": len(violations)}
    os.makedirs(os.path.join(ROOT, "evidence"), exist_ok=True)
    json.dump(ev, open(os.path.join(ROOT, "evidence", f"{prop}.json"), "w"), indent=1)

    # ---- verdict
    seen_k = set()
    for k, _ in known_hit:
        if k["id"] not in seen_k:
            seen_k.add(k["id"])
            print(f"KNOWN-FINDING: property={prop} {k['id']}: {k['description']}")
    print(f"[{prop}] tier={tier} functions={len(results)} obligations={n_obl} discharged={n_dis} lemmas={len(lem)} "
          f"bounded_evaluations={cov.get('evaluations', 0)} wall={ev['wall_s']}s")
    for r in results:
        if r["status"] != "ok":
            print(f"  {r['qual']}: {r['status']} {(r.get('error') or '')[:300]}")
    if errors or (bounded and bounded.get("error")):
        for e in errors:
            print(f"CHECKER-ERROR property={prop} {e['qual']}: {(e.get('error') or '')[:600]}")
        if bounded and bounded.get("error"):
            print(f"CHECKER-ERROR property={prop} bounded tier: {bounded['error'][:800]}")
        if not violations:
            return 3
    if violations:
        for path, what, has_input in violations:
            print(f"VIOLATION property={prop} replay={path}" + ("" if has_input else " no-failing-input-found"))
            print(f"  {what}")
        return 1
    if n_obl == 0 and level == "proof":
        print(f"CHECKER-ERROR property={prop}: zero obligations generated")
        return 3
    if undecided:
        for u in undecided:
            print(f"UNDECIDED property={prop} {u['qual']}: {(u.get('error') or '')[:300]}")
        return 2
    return 0


def replay_file(path, repo=None):
    repo = repo or consts_mod.REPO
    doc = json.load(open(path))
    if doc.get("kind") == "bounded":
        return subprocess.call([PY, os.path.join(ROOT, "bounded", "run.py"), doc["property"], "--replay", path], env=dict(os.environ, REPO=repo))
    if "input" not in doc:
        print("no failing input recorded; failed obligations:")
        print(json.dumps(doc.get("failed_obligations"), indent=1))
        return 1
    ctx = build_ctx(repo)
    qual = doc["function"]
    C = ctx.contracts[qual]
    fn, _ = ctx.sources.find(qual.split("#")[0])
    params = [a.arg for a in fn.args.args]
    (r,) = replay_jobs(repo, [{"qual": qual.split("#")[0], "params": params, "inputs": doc["input"], "contract": contract_json(C, params)}])
    print(json.dumps(r, indent=1))
    return 1 if r.get("failed") else 0
