"""pyvc: forward symbolic executor over the real function bodies (ast) that emits one
verification condition per (obligation, path).  See DESIGN.md section 2."""
import ast
import copy as _copy
import z3
from .values import *

BUILTIN_EXC = {"KeyError", "IndexError", "ValueError", "TypeError", "AttributeError", "StopIteration", "AssertionError"}


class State:
    __slots__ = ("env", "heap", "pc", "meta")

    def __init__(self, env, heap, pc, meta=None):
        self.env, self.heap, self.pc, self.meta = env, heap, pc, meta or {}

    def cp(self):
        return State(dict(self.env), dict(self.heap), list(self.pc), dict(self.meta))


class Obligation:
    def __init__(self, name, assumptions, goal, kind, line=None, expect="unsat", text=""):
        self.name, self.assumptions, self.goal, self.kind, self.line, self.expect, self.text = name, assumptions, goal, kind, line, expect, text
        self.inputs = None  # filled by the driver: how to decode a model into a concrete input


class Contract:
    def __init__(self, qual, params=None, requires=(), ensures=(), raises=None, modifies=None, loops=None, result=None,
                 props=(), pure=False, ghost=None, trusted=False, no_raise=True, old_names=None, note="", lemmas=(), allocates=False, cases=(), asserts=(), assume_pre=(), lemma_at=(), local_types=None, names_result=(), dict_inv=None, assume_after=(), thorough_only=False):
        self.qual = qual
        self.thorough_only = thorough_only       # verified in the thorough tier only (too slow for the per-change check); the quick evidence says so
        self.assume_after = list(assume_after)   # [(name, anchor, expr)]: ASSUMED (listed as A) right after the anchored statement: summary of trusted callees that their own contracts cannot state
        self.params = params or {}          # name -> type descriptor
        self.requires = list(requires)      # [expr str]
        self.ensures = [(e if isinstance(e, tuple) else (f"post{k}", e)) for k, e in enumerate(ensures)]
        self.raises = raises or {}          # ExcName -> condition (over the entry state) under which raising is allowed
        self.modifies = dict(modifies or {})      # field -> expr str designating a list of refs whose field may change | "*"
        if "@msgfields" in self.modifies:         # shorthand: every Message field of the designated objects
            des = self.modifies.pop("@msgfields")
            for f_ in ("message_type", "channel", "time", "note", "velocity", "control", "program", "numerator", "denominator", "key"):
                self.modifies.setdefault(f_, des)
        self.loops = loops or {}            # "L0" -> dict(fingerprint=..., inv=[(name, expr)], dec=expr|None)
        self.result = result                # type descriptor of the result (needed when used as a callee contract)
        self.props = list(props)
        self.pure = pure
        self.trusted = trusted              # assumed (A): external function, no body obligations
        self.ghost = ghost or {}
        self.note = note
        self.names_result = list(names_result)   # clauses that merely NAME the returned value by a fresh function of the arguments (assumed at call sites only; sound for a single call per state)
        self.dict_inv = dict(dict_inv or {})         # abstract dict variable -> "lambda v: <refinement of every stored leaf value>"
        self.local_types = dict(local_types or {})   # element types of local lists that start empty (name -> "list:<elem>")
        self.lemma_at = list(lemma_at)      # [(lemma name, anchor, instance expr)]: instance of a separately proved lemma, assumed just before the anchored statement
        self.assume_pre = list(assume_pre)  # callee quals whose preconditions are ASSUMED at this function's call sites (listed as assumptions)
        self.asserts = list(asserts)        # [(name, anchor: prefix of the unparsed statement, expr)]: checked just before that statement runs
        self.cases = list(cases)            # exhaustive case split of the entry state (each case verified separately; exhaustiveness is an obligation)
        self.allocates = allocates          # the callee may allocate objects (all field arrays are re-framed at call sites)
        self.lemmas = list(lemmas)          # [(lemma name, instance expr)]: instances of separately proved lemmas, assumed at entry


class Ctx:
    def __init__(self, consts, schema, sources):
        self.consts, self.schema, self.sources = consts, schema, sources
        self.contracts = {}
        self.specfuns = {}
        self.enums = {k: [m[0] for m in v] for k, v in consts["enums"].items()}
        self.enum_values = {k: [m[1] for m in v] for k, v in consts["enums"].items()}
        self.enums["MidoKind"] = list(Exec.MIDO_KINDS) + ["other"] if False else ["note_on", "note_off", "time_signature", "key_signature", "control_change", "program_change", "other"]
        self.enum_values["MidoKind"] = list(self.enums["MidoKind"])
        self.globals = {}     # name -> Val, for module constants (settings)
        for k, v in consts["settings"].items():
            if isinstance(v, int):
                self.globals[k] = Num(v)
        self.tables = {k: self.decode_const(v) for k, v in consts["tables"].items()}

    def decode_const(self, x):
        if isinstance(x, dict) and "enum" in x:
            return EnumV(self.enums[x["enum"]].index(x["name"]), x["enum"])
        if isinstance(x, dict) and "dict" in x:
            return ConstDict([(self.decode_const(k), self.decode_const(v)) for k, v in x["dict"]])
        if isinstance(x, list):
            return ConstList([self.decode_const(y) for y in x])
        if isinstance(x, bool):
            return BoolV(x)
        if isinstance(x, int):
            return Num(x)
        if isinstance(x, str):
            return StrV([("lit", x)])
        if x is None:
            return NONE
        raise VCError(f"cannot decode constant {x!r}")

    def field_type(self, cls, field):
        for c in self.mro(cls):
            if c in self.schema and field in self.schema[c]:
                return self.schema[c][field]
        raise VCError(f"no field {field} in schema of {cls}")

    def mro(self, cls):
        out = [cls]
        info = self.sources.classes.get(cls)
        while info and info["bases"]:
            b = info["bases"][0]
            out.append(b)
            info = self.sources.classes.get(b)
        return out

    def may_construct(self, name):
        """classes (with their base classes) that a function / method of this NAME may instantiate, transitively: syntactic closure over
        the names of the functions it calls (every method of that name in any class), `Class(...)`, `self.__class__(...)` (the defining
        class and its subclasses), mido constructors, and the result classes of assumed contracts.  Used to decide which field arrays a
        callee can possibly write besides its `modifies` clause (A: a function writes fields of fresh objects only through constructors)."""
        cache = self.__dict__.setdefault("_mc_cache", {})
        if name in cache:
            return cache[name]
        out, seen, stack = set(), set(), [name]
        subclasses = lambda c: [k for k in self.sources.classes if c in self.mro(k)]
        while stack:
            nm = stack.pop()
            if nm in seen:
                continue
            seen.add(nm)
            bodies = [(c, info["methods"][nm]) for c, info in self.sources.classes.items() if nm in info["methods"]]
            if nm in self.sources.functions:
                bodies.append((None, self.sources.functions[nm]))
            if nm in self.sources.classes:
                out |= set(self.mro(nm))
                stack.append("__init__")
            for q, c in self.contracts.items():
                if q.split("#")[0].split(".")[-1] == nm and c.result and "ref:" in c.result:
                    out |= set(self.mro(c.result.split("ref:")[-1].rstrip("?")))
            for cls, fn in bodies:
                for n in ast.walk(fn):
                    if isinstance(n, ast.Call):
                        f = n.func
                        if isinstance(f, ast.Name):
                            stack.append(f.id)
                        elif isinstance(f, ast.Attribute):
                            if f.attr == "__class__" and cls is not None:
                                for k in subclasses(cls):
                                    out |= set(self.mro(k))
                                    stack.append(k)
                            elif isinstance(f.value, ast.Name) and f.value.id == "mido":
                                out.add("MidoMsg")
                            else:
                                stack.append(f.attr)
                    elif isinstance(n, ast.Attribute) and isinstance(n.ctx, ast.Load):
                        stack.append(n.attr)          # properties are calls too
        cache[name] = out
        return out

    def find_method(self, cls, name):
        for c in self.mro(cls):
            info = self.sources.classes.get(c)
            if info and name in info["methods"]:
                return c, info["methods"][name]
        return None, None


def mk_heap(ctx):
    h = {"@len": z3.Array("H_len", I, I), "@el": z3.Array("H_el", I, z3.ArraySort(I, I)), "@alloc": z3.Array("H_alloc", I, B)}
    for cls, fields in ctx.schema.items():
        for f, t in fields.items():
            if f == "__tuple__":
                continue
            if f not in h:
                h[f] = z3.Array(f, I, sort_of(t))
                if parse_type(t)[2]:
                    h[f + "?"] = z3.Array(f + "_isnone", I, B)
    return h


def heap_typing(ctx, heap):
    """language-level heap invariants: no dangling references (reachability-closed allocation), list lengths >= 0,
    enum-typed fields hold members of their enum.  Re-assumed for every havocked heap."""
    out = []
    o, k = z3.Int("o!ht"), z3.Int("k!ht")
    al = heap["@alloc"]
    out.append(safe_forall([o], heap["@len"][o] >= 0, patterns=[heap["@len"][o]]))
    seen = set()
    for cls, fields in ctx.schema.items():
        for f, t in fields.items():
            if f in seen or f == "__tuple__":
                continue
            seen.add(f)
            base, arg, opt = parse_type(t)
            live = z3.And(al[o], z3.Not(heap[f + "?"][o])) if opt else al[o]
            if base == "enum":
                out.append(safe_forall([o], z3.Implies(live, z3.And(0 <= heap[f][o], heap[f][o] < len(ctx.enums[arg]))), patterns=[heap[f][o]]))
            elif base == "ref":
                out.append(safe_forall([o], z3.Implies(live, al[heap[f][o]]), patterns=[heap[f][o]]))
            elif base == "list":
                out.append(safe_forall([o], z3.Implies(live, al[heap[f][o]]), patterns=[heap[f][o]]))
                eb = parse_type(arg)[0]
                if eb in ("ref", "list"):
                    lst = heap[f][o]
                    out.append(safe_forall([o, k], z3.Implies(z3.And(live, 0 <= k, k < heap["@len"][lst]), al[heap["@el"][lst][k]]),
                                         patterns=[heap["@el"][heap[f][o]][k]]))
    return out


TDIV = z3.Function("tdiv", I, I, I)
TDIV2 = z3.Function("tdiv2", I, I, I, I, I)      # tdiv2(c, f1, f2, d) = trunc(c*f1*f2 / d): keeps a product of two symbolic factors out of the arithmetic solver


def _tdiv(num, den):
    num = z3.simplify(num)
    if z3.is_app_of(num, z3.Z3_OP_MUL):
        coef, fac = 1, []
        stack = list(num.children())
        while stack:
            c = stack.pop()
            if z3.is_int_value(c):
                coef *= c.as_long()
            elif z3.is_app_of(c, z3.Z3_OP_MUL):
                stack.extend(c.children())
            else:
                fac.append(c)
        if len(fac) == 2:
            fac.sort(key=lambda t: str(t))
            return TDIV2(z3.IntVal(coef), fac[0], fac[1], den)
    return TDIV(num, den)


def _as_int(t):
    """Real-sorted term that is the embedding of an Int term -> that Int term"""
    t = z3.simplify(t)
    if z3.is_app_of(t, z3.Z3_OP_TO_REAL):
        return t.arg(0)
    if z3.is_rational_value(t) and t.denominator_as_long() == 1:
        return z3.IntVal(t.numerator_as_long())
    if z3.is_app_of(t, z3.Z3_OP_MUL) or z3.is_app_of(t, z3.Z3_OP_ADD):
        parts = [_as_int(c) for c in t.children()]
        if all(p is not None for p in parts):
            r = parts[0]
            for p_ in parts[1:]:
                r = r * p_ if z3.is_app_of(t, z3.Z3_OP_MUL) else r + p_
            return r
    return None


def _as_frac(t, depth=0):
    """Real-sorted term that is a quotient of Int terms -> (numerator, denominator) Int terms (denominator not simplified away)"""
    t = z3.simplify(t)
    w = _as_int(t)
    if w is not None:
        return w, z3.IntVal(1)
    if z3.is_rational_value(t):
        return z3.IntVal(t.numerator_as_long()), z3.IntVal(t.denominator_as_long())
    if depth > 6:
        return None
    if z3.is_app_of(t, z3.Z3_OP_MUL):
        parts = [_as_frac(c, depth + 1) for c in t.children()]
        if all(p is not None for p in parts):
            n, d = parts[0]
            for (a, b) in parts[1:]:
                n, d = n * a, d * b
            return z3.simplify(n), z3.simplify(d)
    if z3.is_app_of(t, z3.Z3_OP_DIV) or z3.is_div(t):
        a, b = (_as_frac(c, depth + 1) for c in t.children())
        if a is not None and b is not None:
            return z3.simplify(a[0] * b[1]), z3.simplify(a[1] * b[0])
    return None


_mn_cache = {}


def _mentions(t, prefix):
    key = (t.get_id(), prefix)
    if key in _mn_cache:
        return _mn_cache[key]
    r = False
    stack, seen = [t], set()
    while stack:
        x = stack.pop()
        if x.get_id() in seen:
            continue
        seen.add(x.get_id())
        if z3.is_app(x) and x.decl().name().startswith(prefix):
            r = True
            break
        if z3.is_quantifier(x):
            stack.append(x.body())
        else:
            stack.extend(x.children())
    _mn_cache[key] = r
    return r


_hq_cache = {}


def _has_quant(t):
    i = t.get_id()
    if i in _hq_cache:
        return _hq_cache[i]
    r = False
    stack = [t]
    seen = set()
    while stack:
        x = stack.pop()
        if x.get_id() in seen:
            continue
        seen.add(x.get_id())
        if z3.is_quantifier(x):
            r = True
            break
        stack.extend(x.children())
    _hq_cache[i] = r
    return r


def conjuncts(e):
    """split a Python `a and b and c` expression string into top-level conjunct strings"""
    node = ast.parse(e, mode="eval").body
    if isinstance(node, ast.BoolOp) and isinstance(node.op, ast.And):
        return [ast.unparse(v) for v in node.values]
    return [e]


class Exec:
    def __init__(self, ctx, qual, contract=None, silent=False):
        self.ctx, self.qual, self.contract = ctx, qual, contract
        self.obls = []
        self.guards = []
        self.silent = silent
        self.loop_counter = 0
        self.depth = 0
        self.inlined = set()
        self.used_contracts = set()
        self.notes = []
        self.cur_line = None
        self.feasibility = True
        self.paths = 0

    # ------------------------------------------------------------------ obligations
    def oblige(self, name, st, goal, kind, text=""):
        if self.silent:
            return
        goal = z3.simplify(goal) if isinstance(goal, z3.ExprRef) else z3.BoolVal(bool(goal))
        if z3.is_true(goal):
            return self.obls.append(Obligation(name, [], z3.BoolVal(True), kind, self.cur_line, text=text))
        ob = Obligation(name, list(st.pc) + list(self.guards), goal, kind, self.cur_line, text=text)
        # relevance filter (first attempt only): axioms about the recursive wait-sum functions are dropped when the goal does not
        # mention such a function; if that attempt does not discharge the obligation it is retried with everything
        if not _mentions(goal, "wsum"):
            light = [a for a in ob.assumptions if not (_has_quant(a) and _mentions(a, "wsum"))]
            if len(light) < len(ob.assumptions):
                ob.light = light
        self.obls.append(ob)

    def safety(self, what, st, cond):
        self.oblige(f"safe@{self.cur_line}:{what}", st, cond, "safe", text=what)

    def feasible(self, st, extra=None):
        if not self.feasibility:
            return True
        # pruning only: quantifier-free part of the path condition (an over-approximation of feasibility)
        s = z3.Solver()
        s.set("timeout", 500)
        for p_ in st.pc:
            if not _has_quant(p_):
                s.add(p_)
        if extra is not None and not _has_quant(extra):
            s.add(extra)
        return s.check() != z3.unsat

    # ------------------------------------------------------------------ heap helpers
    def read_field(self, st, ref, field, heap=None):
        fz = getattr(ref, "frozen_heap", None)
        t = self.ctx.field_type(ref.cls, field)
        if heap is None and fz is not None and (parse_type(t)[0] == "list" or field.startswith("g_")):
            heap = fz                   # ghost fields and list-valued fields of a frozen structure
        heap = heap if heap is not None else st.heap
        term = heap[field][ref.v]
        none = heap[field + "?"][ref.v] if parse_type(t)[2] else None
        v = wrap(term, t, none)
        if fz is not None and isinstance(v, ListV):
            v.frozen_heap = fz
        return v

    def write_field(self, st, ref, field, val):
        t = self.ctx.field_type(ref.cls, field)
        base, arg, opt = parse_type(t)
        if isinstance(val, NoneV):
            if not opt:
                raise VCError(f"None stored in non-optional field {field}")
            st.heap[field + "?"] = z3.Store(st.heap[field + "?"], ref.v, TRUE)
            return
        if base == "int" and isinstance(val, Num) and val.real:
            raise VCError(f"float stored into integer field {field} (tag layer C11 decides this; value layer assumes ints)")
        if base == "real" and isinstance(val, Num) and not val.real:
            val = Num(val.as_real(), none=val.none, real=True)
        if base == "bool" and not isinstance(val, BoolV):
            raise VCError(f"non-bool stored in bool field {field}")
        st.heap[field] = z3.Store(st.heap[field], ref.v, term_of(val))
        if opt:
            st.heap[field + "?"] = z3.Store(st.heap[field + "?"], ref.v, val.none_term())
        elif val.none is not None:
            self.safety(f"{field} not None", st, z3.Not(val.none))

    def alloc(self, st, name="new"):
        r = fresh(name)
        st.pc.append(z3.Not(st.heap["@alloc"][r]))
        st.heap["@alloc"] = z3.Store(st.heap["@alloc"], r, TRUE)
        return r

    def new_list(self, st, elem, length=0, arr=None):
        r = self.alloc(st, "lst")
        st.heap["@len"] = z3.Store(st.heap["@len"], r, length if isinstance(length, z3.ExprRef) else z3.IntVal(length))
        if arr is not None:
            st.heap["@el"] = z3.Store(st.heap["@el"], r, arr)
        return ListV(r, elem)

    def llen(self, st, lst, heap=None):
        heap = heap if heap is not None else (getattr(lst, "frozen_heap", None) or st.heap)
        return heap["@len"][lst.v]

    def lget(self, st, lst, idx, heap=None):
        fz = getattr(lst, "frozen_heap", None)
        heap = heap if heap is not None else (fz or st.heap)
        v = wrap(heap["@el"][lst.v][idx], lst.elem)
        if fz is not None and isinstance(v, (Ref, ListV)):
            v.frozen_heap = fz          # deep freeze: list structure reached through a frozen list is read in the same snapshot
        return v

    def lset_arr(self, st, lst, arr, length):
        st.heap["@el"] = z3.Store(st.heap["@el"], lst.v, arr)
        st.heap["@len"] = z3.Store(st.heap["@len"], lst.v, length)

    # ------------------------------------------------------------------ truthiness / comparisons
    def truth(self, v, st):
        if isinstance(v, BoolV):
            t = v.v
        elif isinstance(v, NoneV):
            return FALSE
        elif isinstance(v, Num):
            t = v.v != 0
        elif isinstance(v, ListV):
            t = self.llen(st, v) > 0
        elif isinstance(v, ConstList):
            return z3.BoolVal(len(v.items) > 0)
        elif isinstance(v, StrV):
            c = v.const()
            if c is None:
                return TRUE
            return z3.BoolVal(len(c) > 0)
        elif isinstance(v, (Ref, EnumV)):
            t = TRUE
        else:
            raise VCError(f"truth of {v!r}")
        if v.none is not None:
            t = z3.And(z3.Not(v.none), t)
        return t

    def need(self, v, st, what="operand"):
        """safety: v is not None"""
        if isinstance(v, NoneV):
            self.safety(f"{what} is None", st, FALSE)
        elif v.none is not None:
            self.safety(f"{what} not None", st, z3.Not(v.none))

    def eq(self, a, b, st):
        if isinstance(a, NoneV) and isinstance(b, NoneV):
            return TRUE
        if isinstance(a, NoneV):
            return b.none_term()
        if isinstance(b, NoneV):
            return a.none_term()
        if isinstance(a, EnumV) and isinstance(b, StrV) or isinstance(b, EnumV) and isinstance(a, StrV):
            en, sv = (a, b) if isinstance(a, EnumV) else (b, a)
            c_ = sv.const()
            vals = self.ctx.enum_values.get(en.enum, [])
            if c_ is None:
                raise VCError("enum compared with a non-constant string")
            core = z3.Or([en.v == k_ for k_, x_ in enumerate(vals) if x_ == c_] or [FALSE])
            return z3.And(z3.Not(en.none_term()), core)
        if isinstance(a, StrV) or isinstance(b, StrV):
            return self.str_eq(a, b)
        if isinstance(a, TupleV) and isinstance(b, TupleV):
            if len(a.items) != len(b.items):
                return FALSE
            return z3.And([self.eq(x, y, st) for x, y in zip(a.items, b.items)] or [TRUE])
        if isinstance(a, Num) and isinstance(b, Num):
            core = (a.as_real() == b.as_real()) if (a.real or b.real) else (a.v == b.v)
            if a.inf is not None or b.inf is not None:
                ai = a.inf if a.inf is not None else FALSE
                bi = b.inf if b.inf is not None else FALSE
                core = z3.And(ai == bi, z3.Or(ai, core))
        elif isinstance(a, BoolV) and isinstance(b, BoolV):
            core = a.v == b.v
        elif isinstance(a, EnumV) and isinstance(b, EnumV):
            if a.enum != b.enum:
                return FALSE
            core = a.v == b.v
        elif isinstance(a, (Ref, ListV)) and isinstance(b, (Ref, ListV)):
            core = a.v == b.v
        elif isinstance(a, BoolV) and isinstance(b, Num):
            core = z3.If(a.v, 1, 0) == b.v
        elif isinstance(a, Num) and isinstance(b, BoolV):
            core = a.v == z3.If(b.v, 1, 0)
        else:
            return FALSE  # different kinds never compare equal
        an, bn = a.none_term(), b.none_term()
        if a.none is None and b.none is None:
            return core
        return z3.Or(z3.And(an, bn), z3.And(z3.Not(an), z3.Not(bn), core))

    def str_eq(self, a, b):
        if not (isinstance(a, StrV) and isinstance(b, StrV)):
            return FALSE
        if a.shape() != b.shape():
            ca, cb = a.const(), b.const()
            if ca is not None and cb is not None:
                return z3.BoolVal(ca == cb)
            # different literal skeletons: by STR (formatted ints are digit strings of >= width) they differ,
            # provided the skeletons cannot be aligned; we only claim inequality when the literal parts differ
            la = [x for x in a.shape() if isinstance(x, str)]
            lb = [x for x in b.shape() if isinstance(x, str)]
            if la != lb or len(a.atoms) != len(b.atoms):
                return FALSE
            raise VCError(f"cannot decide string equality {a!r} == {b!r}")
        conj = [x[1].v == y[1].v for x, y in zip(a.atoms, b.atoms) if x[0] == "fmt"]
        return z3.And(conj) if conj else TRUE

    def cmp(self, op, a, b, st):
        if isinstance(op, ast.Eq):
            return self.eq(a, b, st)
        if isinstance(op, ast.NotEq):
            return z3.Not(self.eq(a, b, st))
        if isinstance(op, ast.Is):
            return self.eq(a, b, st)
        if isinstance(op, ast.IsNot):
            return z3.Not(self.eq(a, b, st))
        if isinstance(op, (ast.In, ast.NotIn)):
            r = self.contains(b, a, st)
            return r if isinstance(op, ast.In) else z3.Not(r)
        # ordering
        self.need(a, st, "left operand of comparison")
        self.need(b, st, "right operand of comparison")
        if isinstance(a, EnumV) and isinstance(b, EnumV) and a.enum == b.enum == "MessageType":
            if not self.ctx.consts.get("mt_lt_is_index_order"):
                raise VCError("MessageType.__lt__ is not index order")
            x, y = a.v, b.v
        elif isinstance(a, Num) and isinstance(b, Num):
            if a.real or b.real:
                x, y = a.as_real(), b.as_real()
            else:
                x, y = a.v, b.v
            if a.inf is not None or b.inf is not None:
                ai = a.inf if a.inf is not None else FALSE
                bi = b.inf if b.inf is not None else FALSE
                lt = z3.And(z3.Not(ai), z3.Or(bi, x < y))
                gt = z3.And(z3.Not(bi), z3.Or(ai, x > y))
                eq_ = z3.And(ai == bi, z3.Or(ai, x == y))
                return {ast.Lt: lt, ast.Gt: gt, ast.LtE: z3.Or(lt, eq_), ast.GtE: z3.Or(gt, eq_)}[type(op)]
        else:
            raise VCError(f"ordering comparison of {a!r} and {b!r}")
        return {ast.Lt: x < y, ast.Gt: x > y, ast.LtE: x <= y, ast.GtE: x >= y}[type(op)]

    def contains(self, coll, x, st):
        if isinstance(coll, ConstList):
            return z3.Or([self.eq(x, y, st) for y in coll.items] or [FALSE])
        if isinstance(coll, ConstDict):
            return z3.Or([self.eq(x, k, st) for k, _ in coll.pairs] or [FALSE])
        if isinstance(coll, ListV):
            j = fresh("j")
            return z3.Exists([j], z3.And(0 <= j, j < self.llen(st, coll), self.eq(self.lget(st, coll, j), x, st)))
        raise VCError(f"`in` on {coll!r}")

    # ------------------------------------------------------------------ arithmetic
    def arith(self, op, a, b, st):
        if isinstance(a, StrV) or isinstance(b, StrV):
            if isinstance(op, ast.Add) and isinstance(a, StrV) and isinstance(b, StrV):
                return StrV(a.atoms + b.atoms)
            raise VCError("string arithmetic")
        if isinstance(a, BoolV):
            a = Num(z3.If(a.v, 1, 0))
        if isinstance(b, BoolV):
            b = Num(z3.If(b.v, 1, 0))
        if isinstance(a, ConstList) and isinstance(b, ConstList) and isinstance(op, ast.Add):
            return ConstList(a.items + b.items)
        if isinstance(a, ListV) and isinstance(b, ListV) and isinstance(op, ast.Add):
            return self.list_concat(st, a, b)
        if not (isinstance(a, Num) and isinstance(b, Num)):
            raise VCError(f"arithmetic on {a!r}, {b!r}")
        self.need(a, st, "left operand")
        self.need(b, st, "right operand")
        if a.inf is not None or b.inf is not None:
            raise VCError("arithmetic on math.inf")
        real = a.real or b.real
        if isinstance(op, ast.Div):
            self.safety("division by zero", st, b.v != 0)
            return Num(a.as_real() / b.as_real(), real=True)
        x, y = (a.as_real(), b.as_real()) if real else (a.v, b.v)
        if isinstance(op, ast.Add):
            return Num(x + y, real=real)
        if isinstance(op, ast.Sub):
            return Num(x - y, real=real)
        if isinstance(op, ast.Mult):
            return Num(x * y, real=real)
        if isinstance(op, ast.Pow):
            xs, ys = z3.simplify(x), z3.simplify(y)
            if z3.is_int_value(xs) and z3.is_int_value(ys) and ys.as_long() >= 0:
                return Num(xs.as_long() ** ys.as_long())
            raise VCError("symbolic power")
        if real:
            if isinstance(op, ast.Mod):
                # x % y for reals with y > 0: x - y*floor(x/y); only the ==0 test occurs in the code
                self.safety("modulo by zero", st, y != 0)
                q = fresh("q")
                st.pc.append(z3.And(z3.ToReal(q) * y <= x, x < (z3.ToReal(q) + 1) * y) if True else TRUE)
                st.pc.append(y > 0)
                return Num(x - z3.ToReal(q) * y, real=True)
            raise VCError("real floor-div")
        if isinstance(op, (ast.FloorDiv, ast.Mod)):
            self.safety("division by zero", st, y != 0)
            ys = z3.simplify(y)
            if z3.is_int_value(ys) and ys.as_long() > 0:
                return Num(x / y if isinstance(op, ast.FloorDiv) else x % y)
            # python floor semantics for a divisor of unknown sign
            q, r = x / y, x % y   # SMT: r >= 0, x = y*q + r
            if isinstance(op, ast.FloorDiv):
                return Num(z3.If(z3.Or(y > 0, r == 0), q, z3.If(y < 0, q - 1, q)))   # y<0: floor = q-1 when r != 0 ... (see below)
            return Num(z3.If(z3.Or(y > 0, r == 0), r, r + y))
        raise VCError(f"operator {op}")

    def list_concat(self, st, a, b):
        na, nb = self.llen(st, a), self.llen(st, b)
        arr = fresh("cat", z3.ArraySort(I, I))
        k = fresh("k")
        ea, eb = st.heap["@el"][a.v], st.heap["@el"][b.v]
        st.pc.append(safe_forall([k], z3.Implies(z3.And(0 <= k, k < na + nb), arr[k] == z3.If(k < na, ea[k], eb[k - na])), patterns=[arr[k]]))
        return self.new_list(st, a.elem, na + nb, arr)

    # ------------------------------------------------------------------ expressions
    def ev(self, e, st):
        m = getattr(self, "ev_" + type(e).__name__, None)
        if m is None:
            raise VCError(f"expression {type(e).__name__} outside subset at line {getattr(e, 'lineno', '?')}")
        return m(e, st)

    def ev_Constant(self, e, st):
        v = e.value
        if v is None:
            return NONE
        if isinstance(v, bool):
            return BoolV(v)
        if isinstance(v, int):
            return Num(v)
        if isinstance(v, float):
            return Num(z3.RealVal(repr(v)), real=True)
        if isinstance(v, str):
            return StrV([("lit", v)])
        raise VCError(f"constant {v!r}")

    def ev_Name(self, e, st):
        if e.id in st.env:
            return st.env[e.id]
        if e.id in self.ctx.globals:
            return self.ctx.globals[e.id]
        if e.id in self.ctx.enums or e.id in self.ctx.sources.classes or e.id in ("math", "copy", "itertools", "np", "LOGGER"):
            return Opaque(e.id)
        raise VCError(f"unbound name {e.id} at line {e.lineno}")

    def ev_Attribute(self, e, st):
        # Enum member / class-level table / math.inf
        if isinstance(e.value, ast.Name) and e.value.id not in st.env:
            n = e.value.id
            if n in self.ctx.enums:
                if e.attr in self.ctx.enums[n]:
                    return EnumV(self.ctx.enums[n].index(e.attr), n)
                raise VCError(f"{n}.{e.attr}")
            if f"{n}.{e.attr}" in self.ctx.tables:
                return self.ctx.tables[f"{n}.{e.attr}"]
            if n == "math" and e.attr == "inf":
                return Num(z3.RealVal(0), real=True, inf=TRUE)
            if n == "math" and e.attr == "nan":
                return Num(z3.Int("NaN!const"))      # an unconstrained constant: nothing may be derived from its value
            if e.attr == "LOGGER":
                return Opaque("LOGGER")
        b = self.ev(e.value, st)
        if isinstance(b, NoneV) and getattr(self, "in_spec", 0):
            # spec expressions are total: a field of None is an arbitrary value (always guarded by an implication)
            for cls, fields in self.ctx.schema.items():
                if e.attr in fields:
                    t = fields[e.attr]
                    return wrap(fresh("undef", sort_of(t)), t, fresh("undef_isnone", B) if parse_type(t)[2] else None)
        if isinstance(b, EnumV) and e.attr == "value":
            vals = self.ctx.enum_values[b.enum]
            self.need(b, st, "enum")
            if all(isinstance(x, int) for x in vals):
                r = z3.IntVal(vals[-1])
                for i in range(len(vals) - 2, -1, -1):
                    r = z3.If(b.v == i, vals[i], r)
                return Num(r)
            bs = z3.simplify(b.v)
            if z3.is_int_value(bs):
                return StrV([("lit", vals[bs.as_long()])])
            return Opaque(("enum-value", b))
        if isinstance(b, Ref):
            self.need(b, st, f"object of .{e.attr}")
            cls, node = self.ctx.find_method(b.cls, e.attr)
            if node is not None and any(isinstance(d, ast.Name) and d.id == "property" for d in node.decorator_list):
                raise VCError(f"property {b.cls}.{e.attr} must be hoisted (internal)")
            for c_ in self.ctx.mro(b.cls):
                if f"{c_}.{e.attr}" in self.ctx.tables:
                    return self.ctx.tables[f"{c_}.{e.attr}"]      # class-level constant read through an instance
            return self.read_field(st, b, e.attr)
        if isinstance(b, Opaque) and b.what == "self_tok":
            raise VCError("tokeniser attribute")
        raise VCError(f"attribute .{e.attr} of {b!r} at line {e.lineno}")

    def ev_BinOp(self, e, st):
        return self.arith(e.op, self.ev(e.left, st), self.ev(e.right, st), st)

    def ev_UnaryOp(self, e, st):
        v = self.ev(e.operand, st)
        if isinstance(e.op, ast.Not):
            return BoolV(z3.Not(self.truth(v, st)))
        if isinstance(e.op, ast.USub):
            self.need(v, st)
            return Num(-v.v, real=v.real)
        raise VCError("unary op")

    def ev_BoolOp(self, e, st):
        vals = []
        n0 = len(self.guards)
        try:
            for v in e.values:
                x = self.ev(v, st)
                t = self.truth(x, st)
                vals.append((x, t))
                self.guards.append(t if isinstance(e.op, ast.And) else z3.Not(t))
        finally:
            del self.guards[n0:]
        if all(isinstance(x, BoolV) and x.none is None for x, _ in vals):
            return BoolV(z3.And([t for _, t in vals]) if isinstance(e.op, ast.And) else z3.Or([t for _, t in vals]))
        raise VCError("and/or on non-boolean operands")

    def ev_Compare(self, e, st):
        l = self.ev(e.left, st)
        out = []
        n0 = len(self.guards)
        try:
            for op, r in zip(e.ops, e.comparators):
                r = self.ev(r, st)
                c = self.cmp(op, l, r, st)
                out.append(c)
                self.guards.append(c)
                l = r
        finally:
            del self.guards[n0:]
        return BoolV(z3.And(out) if len(out) > 1 else out[0])

    def ev_IfExp(self, e, st):
        c = self.truth(self.ev(e.test, st), st)
        self.guards.append(c)
        try:
            a = self.ev(e.body, st)
        finally:
            self.guards.pop()
        self.guards.append(z3.Not(c))
        try:
            b = self.ev(e.orelse, st)
        finally:
            self.guards.pop()
        return self.ite(c, a, b)

    def ite(self, c, a, b):
        cs = z3.simplify(c)
        if z3.is_true(cs):
            return a
        if z3.is_false(cs):
            return b
        if isinstance(a, NoneV) and isinstance(b, NoneV):
            return a
        if isinstance(a, NoneV) or isinstance(b, NoneV):
            other = b if isinstance(a, NoneV) else a
            r = _copy.copy(other)
            nn = other.none_term()
            r.none = z3.If(c, TRUE, nn) if isinstance(a, NoneV) else z3.If(c, nn, TRUE)
            return r
        if isinstance(a, Num) and isinstance(b, Num):
            real = a.real or b.real
            x, y = (a.as_real(), b.as_real()) if real else (a.v, b.v)
            inf = None
            if a.inf is not None or b.inf is not None:
                inf = z3.If(c, a.inf if a.inf is not None else FALSE, b.inf if b.inf is not None else FALSE)
            none = None
            if a.none is not None or b.none is not None:
                none = z3.If(c, a.none_term(), b.none_term())
            return Num(z3.If(c, x, y), none=none, real=real, inf=inf)
        if type(a) is type(b) and isinstance(a, (BoolV, EnumV, Ref, ListV)):
            r = _copy.copy(a)
            r.v = z3.If(c, a.v, b.v)
            if a.none is not None or b.none is not None:
                r.none = z3.If(c, a.none_term(), b.none_term())
            return r
        raise VCError(f"conditional expression over {a!r} / {b!r}")

    def ev_Tuple(self, e, st):
        return TupleV([self.ev(x, st) for x in e.elts])

    def ev_List(self, e, st):
        return ConstList([self.ev(x, st) for x in e.elts])

    def ev_Dict(self, e, st):
        ent = {}
        for k, v in zip(e.keys, e.values):
            kv = self.ev(k, st)
            if not isinstance(kv, StrV) or kv.const() is None:
                raise VCError("dict literal with non-constant key")
            ent[kv.const()] = (TRUE, self.ev(v, st))
        return DictObj(ent)

    def ev_Lambda(self, e, st):
        return Closure(e, st.env)

    def ev_JoinedStr(self, e, st):
        atoms = []
        for v in e.values:
            if isinstance(v, ast.Constant):
                atoms.append(("lit", v.value))
                continue
            x = self.ev(v.value, st)
            spec = ""
            if v.format_spec is not None:
                spec = "".join(c.value for c in v.format_spec.values if isinstance(c, ast.Constant))
            if isinstance(x, StrV):
                atoms += x.atoms
            elif isinstance(x, Num):
                self.need(x, st, "formatted value")
                xs = z3.simplify(x.v)
                if z3.is_int_value(xs) and not x.real:
                    atoms.append(("lit", format(xs.as_long(), spec)))
                else:
                    w = int(spec.lstrip("0") or 0) if spec else 0
                    if not x.real:
                        self.safety("formatted number is non-negative (STR)", st, x.v >= 0)
                    atoms.append(("fmt", x, w))
            else:
                raise VCError(f"f-string of {x!r}")
        return StrV(atoms)

    def ev_Subscript(self, e, st):
        c = self.ev(e.value, st)
        if isinstance(e.slice, ast.Slice):
            return self.slice(c, e.slice, st)
        i = self.ev(e.slice, st)
        return self.index(c, i, st)

    def slice(self, c, sl, st):
        lo = self.ev(sl.lower, st) if sl.lower else None
        hi = self.ev(sl.upper, st) if sl.upper else None
        if isinstance(c, StrV):
            his = z3.simplify(hi.v) if hi is not None else None
            if lo is None and his is not None and z3.is_int_value(his) and his.as_long() == -1:
                if c.atoms and c.atoms[-1][0] == "lit" and len(c.atoms[-1][1]) >= 1:
                    return StrV(c.atoms[:-1] + [("lit", c.atoms[-1][1][:-1])])
                raise VCError("[:-1] cuts into a formatted number")
            raise VCError("string slice")
        if isinstance(c, ConstList):
            def cv(x):
                if x is None:
                    return None
                xs = z3.simplify(x.v)
                if not z3.is_int_value(xs):
                    raise VCError("symbolic slice of constant list")
                return xs.as_long()
            return ConstList(c.items[cv(lo):cv(hi)])
        if isinstance(c, ListV):
            n = self.llen(st, c)
            a = lo.v if lo is not None else z3.IntVal(0)
            b = hi.v if hi is not None else n
            # only in-range, non-negative slices are supported
            self.safety("slice bounds", st, z3.And(0 <= a, a <= b, b <= n))
            arr = fresh("slc", z3.ArraySort(I, I))
            k = fresh("k")
            src = st.heap["@el"][c.v]
            st.pc.append(safe_forall([k], z3.Implies(z3.And(0 <= k, k < b - a), arr[k] == src[k + a]), patterns=[arr[k]]))
            return self.new_list(st, c.elem, b - a, arr)
        raise VCError(f"slice of {c!r}")

    def index(self, c, i, st):
        if isinstance(c, TupleV) or isinstance(c, ConstList):
            if not isinstance(i, Num):
                raise VCError("non-int index")
            xs = z3.simplify(i.v)
            items = c.items
            if z3.is_int_value(xs):
                k = xs.as_long()
                if not (-len(items) <= k < len(items)):
                    self.safety("index in range", st, FALSE)
                    raise VCError("constant index out of range")
                return items[k]
            self.safety("index in range", st, z3.And(-len(items) <= i.v, i.v < len(items)))
            if not items:
                raise VCError("index into empty constant list")
            r = items[-1]
            for k in range(len(items) - 2, -1, -1):
                r = self.ite(z3.Or(i.v == k, i.v == k - len(items)), items[k], r)
            return r
        if isinstance(c, ConstDict) and isinstance(i, EnumV) and c.pairs and isinstance(c.pairs[0][0], StrV):
            # a table keyed by the *value strings* of an enum, indexed with the member the string stands for
            vals = self.ctx.enum_values[i.enum]
            by = {k.const(): v for k, v in c.pairs}
            self.safety("key present", st, z3.Or([i.v == j_ for j_, s_ in enumerate(vals) if s_ in by] or [FALSE]))
            opts = [(j_, by[s_]) for j_, s_ in enumerate(vals) if s_ in by]
            r = opts[-1][1]
            for j_, v_ in reversed(opts[:-1]):
                r = self.ite(i.v == j_, v_, r)
            return r
        if isinstance(c, ConstDict):
            self.safety("key present", st, self.contains(c, i, st))
            if not c.pairs:
                raise VCError("empty dict")
            r = c.pairs[-1][1]
            for k, v in reversed(c.pairs[:-1]):
                r = self.ite(self.eq(i, k, st), v, r)
            return r
        if isinstance(c, Ref) and "__tuple__" in self.ctx.schema.get(c.cls, {}):
            lay = self.ctx.schema[c.cls]["__tuple__"].split(",")
            xs = z3.simplify(i.v)
            if not z3.is_int_value(xs) or not (0 <= xs.as_long() < len(lay)):
                raise VCError("tuple-like object indexed symbolically")
            return self.read_field(st, c, lay[xs.as_long()])
        if isinstance(c, DictObj):
            key = i.const() if isinstance(i, StrV) else None
            if key is None:
                raise VCError("dict subscript with non-constant key")
            ent = c.get(key)
            if ent is None:
                self.safety(f"key {key!r} present (KeyError)", st, FALSE)
                raise VCError(f"key {key!r} never stored")
            self.safety(f"key {key!r} present (KeyError)", st, ent[0])
            return ent[1]
        if isinstance(c, ListV):
            self.need(c, st, "list")
            self.need(i, st, "index")
            n = self.llen(st, c)
            self.safety("index in range", st, z3.And(-n <= i.v, i.v < n))
            idx = i.v
            xs = z3.simplify(idx)
            if z3.is_int_value(xs) and xs.as_long() < 0:
                idx = n + xs
            elif not z3.is_int_value(xs) and not getattr(self, "in_spec", 0):
                # (contract expressions index from the front only; a symbolic index there is a bound variable >= 0)
                idx = z3.If(idx < 0, n + idx, idx)
            return self.lget(st, c, idx)
        if isinstance(c, AbsDictV):
            self.notes.append("A: a lookup d[k] in an abstract dict is assumed to hit (KeyError is not modelled for abstract dicts)")
            return self.absdict_read(st, c)
        raise VCError(f"subscript of {c!r}")

    def ev_ListComp(self, e, st):
        if len(e.generators) != 1 or e.generators[0].is_async:
            raise VCError("nested comprehension")
        g = e.generators[0]
        src = self.ev(g.iter, st) if not (isinstance(g.iter, ast.Call) and isinstance(g.iter.func, ast.Name) and g.iter.func.id == "range") else self.range_list(g.iter, st)
        if isinstance(src, ConstList):
            out = []
            for x in src.items:
                st2 = st.cp()
                self.bind(g.target, x, st2)
                if g.ifs:
                    raise VCError("filtered comprehension over constant list")
                out.append(self.ev(e.elt, st2))
            return ConstList(out)
        if isinstance(src, ListV) and not g.ifs:
            n = self.llen(st, src)
            k = fresh("k")
            st2 = st.cp()
            self.bind(g.target, self.lget(st, src, k), st2)
            self.guards.append(z3.And(0 <= k, k < n))
            try:
                val = self.ev(e.elt, st2)
            finally:
                self.guards.pop()
            if isinstance(val, Ref):
                elem = "ref:" + val.cls
            elif isinstance(val, Num) and not val.real:
                elem = "int"
            else:
                raise VCError(f"comprehension element {val!r}")
            arr = fresh("cmp", z3.ArraySort(I, I))
            st.pc.append(safe_forall([k], z3.Implies(z3.And(0 <= k, k < n), arr[k] == val.v), patterns=[arr[k]]))
            st.pc += [p for p in st2.pc[len(st.pc) - 1:] if False]
            return self.new_list(st, elem, n, arr)
        if isinstance(src, ListV) and g.ifs and isinstance(e.elt, ast.Name) and isinstance(g.target, ast.Name) and e.elt.id == g.target.id:
            return self.filter_comp(e, g, src, st)
        raise VCError(f"list comprehension over {src!r} (filter={bool(g.ifs)}) at line {e.lineno}")

    def filter_comp(self, e, g, src, st):
        """[x for x in L if cond(x)] over a heap list: a new list R with ghost index maps sg: R -> L (strictly increasing, R[k] = L[sg(k)],
        cond holds there) and tau: L -> R (defined where cond holds, inverse of sg).  These facts characterise the filtered list exactly."""
        n = self.llen(st, src)
        arrL = (getattr(src, "frozen_heap", None) or st.heap)["@el"][src.v]
        x0 = fresh("fx")
        st2 = st.cp()
        el0 = wrap(x0, src.elem)
        if getattr(src, "frozen_heap", None) is not None and isinstance(el0, (Ref, ListV)):
            el0.frozen_heap = src.frozen_heap
        self.bind(g.target, el0, st2)
        sil, self.silent = self.silent, True            # (safety of the condition is checked once below, on an arbitrary element)
        try:
            conds = [self.truth(self.ev(c, st2), st2) for c in g.ifs]
        finally:
            self.silent = sil
        cond0 = z3.And(conds) if len(conds) > 1 else conds[0]
        cond = lambda t: z3.substitute(cond0, (x0, t))
        # safety: evaluating the condition on any element of L raises nothing
        j0 = fresh("j")
        st3 = st.cp()
        st3.pc.append(z3.And(0 <= j0, j0 < n))
        self.bind(g.target, self.lget(st3, src, j0), st3)
        for c in g.ifs:
            self.ev(c, st3)
        m = fresh("flen")
        arrR = fresh("flt", z3.ArraySort(I, I))
        sg = z3.Function(f"sg!{fresh('f')}", I, I)
        tau = z3.Function(f"tau!{fresh('f')}", I, I)
        k, k2, j = fresh("k"), fresh("k"), fresh("j")
        st.pc.append(z3.And(0 <= m, m <= n))
        st.pc.append(safe_forall([k], z3.Implies(z3.And(0 <= k, k < m), z3.And(0 <= sg(k), sg(k) < n, arrR[k] == arrL[sg(k)], cond(arrL[sg(k)]), tau(sg(k)) == k)), patterns=[arrR[k]]))
        st.pc.append(safe_forall([k, k2], z3.Implies(z3.And(0 <= k, k < k2, k2 < m), sg(k) < sg(k2)), patterns=[z3.MultiPattern(sg(k), sg(k2))]))
        st.pc.append(safe_forall([j], z3.Implies(z3.And(0 <= j, j < n, cond(arrL[j])), z3.And(0 <= tau(j), tau(j) < m, sg(tau(j)) == j, arrR[tau(j)] == arrL[j])), patterns=[arrL[j]]))
        self.notes.append("filtered comprehension: characterised by ghost index maps (strictly increasing selection of exactly the elements that satisfy the condition)")
        if not (self.contract is not None and "wsum(" in repr((self.contract.asserts, self.contract.ensures))):
            return self.new_list(st, src.elem, m, arrR)
        # the same selection seen through a counting function: cnt(j) = number of kept elements among L[0:j]; the j-th element, if kept, is R[cnt(j)]
        cnt = z3.Function(f"cnt!{fresh('f')}", I, I)
        st.pc.append(cnt(0) == 0)
        st.pc.append(safe_forall([j], z3.Implies(j >= 0, z3.And(cnt(j + 1) == cnt(j) + z3.If(z3.And(j < n, cond(arrL[j])), 1, 0), cnt(j) >= 0)), patterns=[cnt(j + 1)]))
        st.pc.append(safe_forall([j], z3.Implies(z3.And(0 <= j, j < n, cond(arrL[j])), z3.And(tau(j) == cnt(j), arrR[cnt(j)] == arrL[j])), patterns=[cnt(j)]))
        st.pc.append(cnt(n) == m)
        self.notes.append("filtered comprehension: characterised by ghost index maps (strictly increasing selection of exactly the elements that satisfy the condition)")
        R = self.new_list(st, src.elem, m, arrR)
        if src.elem == "ref:Message" and getattr(src, "frozen_heap", None) is None:
            # instance of lemma wsum_filter: if every element that is filtered OUT has wait-weight 0, the filtered list has the same wait sum
            from .specfns import wsum_fn
            fL, fR = wsum_fn(self, st, src), wsum_fn(self, st, R)
            wL = self._specfn_weight(st, src)
            st.pc.append(z3.Implies(safe_forall([j], z3.Implies(z3.And(0 <= j, j < n, z3.Not(cond(arrL[j]))), wL(j) == 0)), fR(m) == fL(n)))
            self.notes.append("L: instance of lemma wsum_filter (filtering out messages that are not waits keeps the wait sum)")
        return R

    def range_list(self, call, st):
        args = [self.ev(a, st) for a in call.args]
        vals = [z3.simplify(a.v) for a in args]
        if all(z3.is_int_value(v) for v in vals):
            return ConstList([Num(x) for x in range(*[v.as_long() for v in vals])])
        # symbolic range(lo, hi): a fresh list with elems lo..hi-1
        lo, hi = (z3.IntVal(0), args[0].v) if len(args) == 1 else (args[0].v, args[1].v)
        if len(args) == 3:
            raise VCError("symbolic range with step")
        n = z3.If(hi > lo, hi - lo, 0)
        arr = fresh("rng", z3.ArraySort(I, I))
        k = fresh("k")
        st.pc.append(safe_forall([k], z3.Implies(z3.And(0 <= k, k < n), arr[k] == lo + k), patterns=[arr[k]]))
        return self.new_list(st, "int", n, arr)

    def bind(self, target, val, st):
        if isinstance(target, ast.Name):
            st.env[target.id] = val
        elif isinstance(target, ast.Tuple):
            if not isinstance(val, TupleV) or len(val.items) != len(target.elts):
                raise VCError("tuple unpacking mismatch")
            for t, v in zip(target.elts, val.items):
                self.bind(t, v, st)
        else:
            raise VCError("binding target")

    # ------------------------------------------------------------------ calls at expression level
    def ev_Call(self, e, st):
        f = e.func
        if isinstance(f, ast.Name):
            n = f.id
            if n in self.ctx.specfuns and n not in st.env:
                return self.ctx.specfuns[n](self, st, e)
            if n == "dict" and not e.args and not e.keywords:
                return DictObj({})
            if n == "__newlist__":
                return self.new_list(st, "?", 0)
            if n == "abs":
                v = self.ev(e.args[0], st)
                self.need(v, st)
                return Num(z3.If(v.v >= 0, v.v, -v.v), real=v.real)
            if n == "len":
                v = self.ev(e.args[0], st)
                if isinstance(v, (ConstList, TupleV)):
                    return Num(len(v.items))
                if isinstance(v, ConstDict):
                    return Num(len(v.pairs))
                if isinstance(v, ListV):
                    self.need(v, st, "list")
                    return Num(self.llen(st, v))
                raise VCError(f"len of {v!r}")
            if n in ("min", "max"):
                args = [self.ev(a, st) for a in e.args]
                if len(args) == 1 and isinstance(args[0], ConstList):
                    args = args[0].items
                if len(args) < 2 or not all(isinstance(a, Num) for a in args):
                    raise VCError("min/max form")
                r = args[0]
                for a in args[1:]:
                    c = self.cmp(ast.Lt() if n == "min" else ast.Gt(), a, r, st)
                    r = self.ite(c, a, r)
                return r
            if n == "int":
                v = self.ev(e.args[0], st)
                if isinstance(v, StrV):
                    return self.str_to_int(v, st)
                self.need(v, st)
                if isinstance(v, BoolV):
                    return Num(z3.If(v.v, 1, 0))
                if not v.real:
                    return Num(v.v)
                # idiom int(x / y) over integers: kept as the uninterpreted truncating quotient tdiv(x, y) (the same idiom on both
                # sides of a comparison then agrees by congruence; its defining lemma is stated separately where it is needed)
                q = self.int_quotient(v.v)
                if q is not None:
                    return Num(q)
                t = z3.ToInt(v.v)   # floor
                return Num(z3.If(z3.Or(v.v >= 0, z3.ToReal(t) == v.v), t, t + 1))
            if n == "float":
                v = self.ev(e.args[0], st)
                if isinstance(v, StrV) and v.const() == "inf":
                    return Num(z3.RealVal(0), real=True, inf=TRUE)
                self.need(v, st)
                return Num(v.as_real(), real=True)
            if n == "round" and len(e.args) == 1:
                v = self.ev(e.args[0], st)
                self.need(v, st)
                if not v.real:
                    return Num(v.v)
                fl = z3.ToInt(v.v)
                fr = v.v - z3.ToReal(fl)
                return Num(z3.If(fr < 0.5, fl, z3.If(fr > 0.5, fl + 1, z3.If(fl % 2 == 0, fl, fl + 1))))
            if n == "isinstance":
                v = self.ev(e.args[0], st)
                cn = e.args[1].id if isinstance(e.args[1], ast.Name) else None
                if isinstance(v, Ref) and cn:
                    return BoolV(z3.And(z3.Not(v.none_term()), z3.BoolVal(cn in self.ctx.mro(v.cls))))
                raise VCError("isinstance form")
            if n == "list":
                v = self.ev(e.args[0], st)
                if isinstance(v, ConstList):
                    return ConstList(v.items)
                if isinstance(v, TupleV):
                    return ConstList(v.items)
                if isinstance(v, ListV):
                    from .calls import list_copy
                    self.need(v, st, "list")
                    return list_copy(self, st, v)
                raise VCError("list() form")
            if n == "sorted":
                return self.sorted_const(e, st)
            if n == "reversed":
                v = self.ev(e.args[0], st)
                if isinstance(v, ConstList):
                    return ConstList(v.items[::-1])
                raise VCError("reversed() of heap list")
            if n in ("any", "all", "next"):
                return self.ev_quant_call(n, e, st)
            if n in self.ctx.enums:
                v = self.ev(e.args[0], st)
                vals = self.ctx.enum_values[n]
                if isinstance(v, Num) and all(isinstance(x, int) for x in vals):
                    self.safety(f"{n}(value): value is a member", st, z3.Or([v.v == x for x in vals]))
                    r = z3.IntVal(len(vals) - 1)
                    for k in range(len(vals) - 2, -1, -1):
                        r = z3.If(v.v == vals[k], k, r)
                    return EnumV(r, n)
                if isinstance(v, EnumV) and v.enum == n:
                    return v
                raise VCError(f"{n}(...) by non-integer value")
            if n in self.ctx.sources.classes:
                raise VCError(f"constructor {n} must be hoisted (internal)")
        if isinstance(f, ast.Attribute) and isinstance(f.value, ast.Name) and f.value.id == "mido" and "mido" not in st.env:
            return self.mido_call(f.attr, e, st)
        if isinstance(f, ast.Name) and f.id == "hasattr":
            v = self.ev(e.args[0], st)
            nm = self.ev(e.args[1], st)
            if isinstance(v, Ref) and v.cls == "MidoMsg" and isinstance(nm, StrV) and nm.const() in self.ctx.schema["MidoMsg"]:
                return BoolV(z3.Not(self.read_field(st, v, nm.const()).none_term()))      # an absent attribute is modelled as None
            if isinstance(v, Ref) and isinstance(nm, StrV) and nm.const() is not None:
                return BoolV(any(nm.const() in self.ctx.schema.get(c_, {}) for c_ in self.ctx.mro(v.cls)))
            raise VCError("hasattr form")
        if isinstance(f, ast.Attribute):
            # expression-level method calls without forking
            if f.attr in ("get", "setdefault", "keys", "values", "items", "pop") and isinstance(self.peek(f.value, st), AbsDictV):
                return self.absdict_method(st, self.ev(f.value, st), f.attr, e)
            if f.attr == "is_integer":
                v = self.ev(f.value, st)
                self.need(v, st)
                fr = _as_frac(v.as_real()) if v.real else None
                if fr is not None and not z3.is_int_value(fr[1]):
                    # a quotient of integers is whole iff the denominator divides the numerator (FLOAT-EXACT; a zero divisor was excluded when the quotient was formed)
                    # ground instance of lemma exact_div for the truncated quotient the code is about to take: d | n  ==>  trunc(n/d) * d == n
                    st.pc.append(z3.Implies(z3.And(fr[1] > 0, fr[0] % fr[1] == 0), z3.And(_tdiv(fr[0], fr[1]) == fr[0] / fr[1], _tdiv(fr[0], fr[1]) * fr[1] == fr[0])))
                    self.notes.append("L: instance of lemma exact_div at float(x).is_integer()")
                    return BoolV(fr[0] % fr[1] == 0)
                return BoolV(z3.ToReal(z3.ToInt(v.as_real())) == v.as_real())
            if f.attr == "index":
                c = self.ev(f.value, st)
                x = self.ev(e.args[0], st)
                if isinstance(c, ConstList):
                    self.safety("value in list (.index)", st, self.contains(c, x, st))
                    r = z3.IntVal(len(c.items) - 1) if c.items else z3.IntVal(0)
                    for k in range(len(c.items) - 2, -1, -1):
                        r = z3.If(self.eq(x, c.items[k], st), k, r)
                    return Num(r)
                if isinstance(c, ListV):
                    self.safety("value in list (.index)", st, self.contains(c, x, st))
                    r = fresh("idx")
                    n = self.llen(st, c)
                    j = fresh("j")
                    st.pc.append(z3.Implies(z3.And(self.guards) if self.guards else TRUE, z3.And(0 <= r, r < n, self.eq(self.lget(st, c, r), x, st),
                                        safe_forall([j], z3.Implies(z3.And(0 <= j, j < r), z3.Not(self.eq(self.lget(st, c, j), x, st)))))))
                    return Num(r)
            if f.attr == "get" and isinstance(self.peek(f.value, st), DictObj):
                c = self.ev(f.value, st)
                key = self.ev(e.args[0], st)
                d = self.ev(e.args[1], st) if len(e.args) > 1 else NONE
                if not (isinstance(key, StrV) and key.const() is not None):
                    raise VCError("dict.get with non-constant key")
                ent = c.get(key.const())
                if ent is None:
                    return d
                return self.ite(ent[0], ent[1], d)
            if f.attr in ("get",) and isinstance(self.peek(f.value, st), ConstDict):
                c = self.ev(f.value, st)
                x = self.ev(e.args[0], st)
                d = self.ev(e.args[1], st) if len(e.args) > 1 else NONE
                r = d
                for k, v in reversed(c.pairs):
                    r = self.ite(self.eq(x, k, st), v, r)
                return r
            if f.attr == "item" or f.attr == "info" or f.attr == "debug" or f.attr == "warning":
                return NONE
        raise VCError(f"call {ast.unparse(e)[:60]} outside subset at line {e.lineno}")

    def _specfn_weight(self, st, L):
        """the weight function of wsum(L, .) in the current state"""
        wait = self.ctx.enums["MessageType"].index("WAIT")
        el, tm, ty = st.heap["@el"][L.v], st.heap["time"], st.heap["message_type"]
        return lambda kk: z3.If(ty[el[kk]] == wait, tm[el[kk]], 0)

    # ------------------------------------------------------------------ abstract dicts
    def absdict_checks(self, root):
        """syntactic side conditions of the abstraction"""
        src = self.contract.dict_inv.get(root)
        if src:
            used = {n.attr for n in ast.walk(ast.parse(src, mode="eval")) if isinstance(n, ast.Attribute)}
            written = {n.attr for n in ast.walk(self.fn_node) if isinstance(n, ast.Attribute) and isinstance(n.ctx, ast.Store)} if getattr(self, "fn_node", None) is not None else set()
            if used & written:
                raise VCError(f"refinement of abstract dict {root} mentions fields the function writes: {sorted(used & written)}")
        self.notes.append(f"A: dict `{root}` of {self.qual} is abstracted (content untracked): reads return an arbitrary value of the declared type satisfying the stated refinement, "
                          "stores are checked against it; lists stored in it are created by this call and are not bound to other containers (checked at every store); a dict is not resized while it is iterated")

    def absdict_pred(self, st, root, v):
        src = self.contract.dict_inv.get(root) if self.contract is not None else None
        if not src:
            return TRUE
        lam = ast.parse(src, mode="eval").body
        t = st.cp()
        t.env = dict(t.env)
        t.env[lam.args.args[0].arg] = v
        return self.truth(self.spec_ev(lam.body, t), t)

    def absdict_leaf_facts(self, st, d, v):
        """what is known about a value read from the abstract dict"""
        facts = []
        if isinstance(v, Ref):
            facts.append(st.heap["@alloc"][v.v])
        if isinstance(v, ListV):
            birth = st.meta.get("dict_birth", {}).get(d.root, st.meta.get("old_heap", st.heap)["@alloc"])
            facts += [st.heap["@alloc"][v.v], z3.Not(birth[v.v]), st.heap["@len"][v.v] >= 0]
            for n_, o in st.env.items():
                if isinstance(o, ListV) and n_ in getattr(self, "private_lists", ()) and o.none is None:
                    facts.append(v.v != o.v)
            base, arg, _ = parse_type(v.elem)
            if base == "ref":
                k = fresh("k")
                el = st.heap["@el"][v.v]
                facts.append(safe_forall([k], z3.Implies(z3.And(0 <= k, k < st.heap["@len"][v.v]), st.heap["@alloc"][el[k]]), patterns=[el[k]]))
        return facts

    def absdict_read(self, st, d):
        base, arg, opt = parse_type(d.vtype)
        if base == "absdict":
            return AbsDictV(arg, d.root)
        v = wrap(fresh("dv"), d.vtype)
        v.none = None
        st.pc += self.absdict_leaf_facts(st, d, v)
        st.pc.append(self.absdict_pred(st, d.root, v))
        v.from_dict = d.root
        return v

    def absdict_store(self, st, d, v, target_node=None):
        base, arg, opt = parse_type(d.vtype)
        if base == "absdict":
            if isinstance(v, AbsDictV) and v.vtype == arg:
                return
            if isinstance(v, DictObj) and not v.entries:
                return            # an empty dict: nothing to check
            raise VCError(f"store of {v!r} into abstract dict of dicts")
        if isinstance(v, ConstList):
            v = self.materialise(st, v, arg if base == "list" else None)
        ok = (base == "ref" and isinstance(v, Ref)) or (base == "list" and isinstance(v, ListV)) or (base == "int" and isinstance(v, Num) and not v.real)
        if not ok:
            raise VCError(f"store of {v!r} into abstract dict of {d.vtype}")
        if isinstance(v, ListV) and v.elem == "?":
            v.elem = arg
        if v.none is not None:
            self.oblige("dict-store.not-none", st, z3.Not(v.none), "safe", text=f"value stored in {d.root} is not None")
        if isinstance(v, ListV):
            birth = st.meta.get("dict_birth", {}).get(d.root, st.meta.get("old_heap", st.heap)["@alloc"])
            self.oblige("dict-store.owned", st, z3.Not(birth[v.v]), "safe", text=f"list stored in {d.root} was created after the dict")
            sep = [v.v != o.v for n_, o in st.env.items() if isinstance(o, ListV) and n_ in getattr(self, "private_lists", ()) and o.none is None]
            if sep:
                self.oblige("dict-store.separate", st, z3.And(sep), "safe", text=f"list stored in {d.root} is not one of the local result lists")
        self.oblige("dict-store.refinement", st, self.absdict_pred(st, d.root, v), "safe", text=f"value stored in {d.root} satisfies the dict refinement")

    def absdict_method(self, st, d, name, e):
        args = [self.ev(a, st) for a in e.args]
        if name == "setdefault":
            if len(args) == 2:
                self.absdict_store(st, d, args[1])
            return self.absdict_read(st, d)
        if name in ("get", "pop"):
            got = self.absdict_read(st, d)
            if len(args) < 2:
                if name == "pop":
                    self.notes.append("A: d.pop(k) without default on an abstract dict is assumed to hit")
                    return got
                dflt = NONE
            else:
                dflt = args[1]
            if isinstance(got, AbsDictV):
                return got
            if isinstance(dflt, ConstList) and not dflt.items:
                dflt = self.new_list(st, parse_type(d.vtype)[1] or "?", 0)
            b = fresh("hit", B)
            if isinstance(dflt, NoneV):
                got.none = z3.Not(b)
                return got
            if isinstance(got, ListV) and isinstance(dflt, ListV):
                r = ListV(z3.If(b, got.v, dflt.v), got.elem)
                r.from_dict = d.root
                return r
            r = self.ite(BoolV(b), got, dflt)
            return r
        if name in ("keys", "values", "items"):
            if name == "keys":
                L = self.new_list(st, "int?", 0)
                n = fresh("nk")
                st.pc.append(n >= 0)
                self.lset_arr(st, L, fresh("keys", z3.ArraySort(I, I)), n)
                L.frozen_heap = dict(st.heap)
                return L
            base, arg, opt = parse_type(d.vtype)
            if base == "absdict":
                raise VCError("iteration over the values of a dict of dicts")
            L = self.new_list(st, d.vtype, 0)
            n = fresh("nv")
            st.pc.append(n >= 0)
            arr = fresh("vals", z3.ArraySort(I, I))
            self.lset_arr(st, L, arr, n)
            k = fresh("k")
            proto = wrap(arr[k], d.vtype)
            proto.none = None
            facts = self.absdict_leaf_facts(st, d, proto) + [self.absdict_pred(st, d.root, proto)]
            st.pc.append(safe_forall([k], z3.Implies(z3.And(0 <= k, k < n), z3.And(facts)), patterns=[arr[k]]))
            L.frozen_heap = dict(st.heap)
            if name == "items":
                L.pair_key = True
            L.from_dict_iter = d.root
            return L
        raise VCError(f"dict method {name}")

    def int_quotient(self, r):
        r = z3.simplify(r)
        if z3.is_rational_value(r):
            fr = r.as_fraction()
            return z3.IntVal(int(fr))          # truncation towards zero
        whole = _as_int(r)
        if whole is not None:
            return whole                       # the real is the embedding of an integer term
        if z3.is_app_of(r, z3.Z3_OP_DIV) or z3.is_div(r):
            a, b = r.children()
            ai, bi = _as_int(a), _as_int(b)
            if ai is not None and bi is not None:
                return _tdiv(ai, bi)
        if z3.is_app_of(r, z3.Z3_OP_MUL):
            # c * x with c = 1/k  (z3 rewrites x / k into (1/k) * x)
            ch = r.children()
            if len(ch) == 2 and z3.is_rational_value(ch[0]) and ch[0].numerator_as_long() == 1:
                xi = _as_int(ch[1])
                if xi is not None:
                    return _tdiv(xi, z3.IntVal(ch[0].denominator_as_long()))
        fr = _as_frac(r)
        if fr is not None and not z3.is_int_value(fr[1]):
            return _tdiv(fr[0], fr[1])
        return None

    MIDO_KINDS = ["note_on", "note_off", "time_signature", "key_signature", "control_change", "program_change"]

    def mido_call(self, what, e, st):
        """A: mido.Message / mido.MetaMessage are records that store their keyword arguments; mido.MidiTrack is a list"""
        self.notes.append("A: mido.Message / mido.MetaMessage store their keyword arguments unchanged; mido.MidiTrack behaves as a list")
        if what == "MidiTrack":
            return self.new_list(st, "ref:MidoMsg", 0)
        if what in ("Message", "MetaMessage"):
            kind = self.ev(e.args[0], st)
            if not isinstance(kind, StrV) or kind.const() not in self.MIDO_KINDS:
                raise VCError("mido message kind")
            r = Ref(self.alloc(st, "mido"), "MidoMsg")
            for f_ in self.ctx.schema["MidoMsg"]:
                if f_ != "type":
                    self.write_field(st, r, f_, NONE)
            self.write_field(st, r, "type", EnumV(self.MIDO_KINDS.index(kind.const()), "MidoKind"))
            for kw in e.keywords:
                v = self.ev(kw.value, st)
                if isinstance(v, Opaque) and isinstance(v.what, tuple) and v.what[0] == "enum-value":
                    v = v.what[1]          # key=<Key member>.value : the key name string stands for the member
                self.write_field(st, r, kw.arg, v)
            return r
        raise VCError(f"mido.{what}")

    def peek(self, e, st):
        try:
            sil, self.silent = self.silent, True
            n0 = len(st.pc)
            v = self.ev(e, st)
            del st.pc[n0:]
            return v
        except VCError:
            return None
        finally:
            self.silent = sil

    def str_to_int(self, v, st):
        if len(v.atoms) == 1 and v.atoms[0][0] == "fmt":
            x = v.atoms[0][1]
            # STR: int() inverts the formatting of a non-negative int; a float renders with '.' -> ValueError
            self.safety("int() of a formatted float", st, z3.BoolVal(not x.real))
            self.safety("int() of a formatted negative number", st, x.v >= 0) if False else None
            return Num(x.v)
        c = v.const()
        if c is not None:
            try:
                return Num(int(c))
            except ValueError:
                self.safety(f"int({c!r}) raises ValueError", st, FALSE)
                return Num(fresh("bad"))
        self.safety("int() of a non-numeric token part", st, FALSE)
        return Num(fresh("bad"))

    def sorted_const(self, e, st):
        v = self.ev(e.args[0], st)
        if not isinstance(v, ConstList):
            raise VCError("sorted() of heap list")
        key = None
        for kw in e.keywords:
            if kw.arg == "key":
                key = self.ev(kw.value, st)
        keys = []
        for it in v.items:
            if key is None:
                k = it
            else:
                st2 = st.cp()
                st2.env = dict(key.env)
                st2.env[key.node.args.args[0].arg] = it
                k = self.ev(key.node.body, st2)
            ks = z3.simplify(k.v) if isinstance(k, Num) else None
            if ks is None or not z3.is_int_value(ks):
                raise VCError("sorted() with symbolic keys")
            keys.append(ks.as_long())
        order = sorted(range(len(keys)), key=lambda i: keys[i])
        return ConstList([v.items[i] for i in order])

    def ev_quant_call(self, n, e, st):
        if not e.args or not isinstance(e.args[0], ast.GeneratorExp):
            raise VCError(f"{n}() form")
        g = e.args[0]
        gen = g.generators[0]
        if len(g.generators) != 1:
            raise VCError("nested generator")
        self._rev_iter = False
        it_ = gen.iter
        if isinstance(it_, ast.Call) and isinstance(it_.func, ast.Name) and it_.func.id == "reversed" and not isinstance(self.peek(it_.args[0], st), ConstList):
            self._rev_iter = True
            it_ = it_.args[0]
        src = self.range_list(it_, st) if (isinstance(it_, ast.Call) and isinstance(it_.func, ast.Name) and it_.func.id == "range") else self.ev(it_, st)
        if isinstance(src, ConstList):
            items = src.items
            conds, vals = [], []
            for x in items:
                st2 = st.cp()
                self.bind(gen.target, x, st2)
                c = z3.And([self.truth(self.ev(i, st2), st2) for i in gen.ifs]) if gen.ifs else TRUE
                conds.append(c)
                vals.append(self.ev(g.elt, st2))
            if n == "any":
                return BoolV(z3.Or([z3.And(c, self.truth(v, st)) for c, v in zip(conds, vals)] or [FALSE]))
            if n == "all":
                return BoolV(z3.And([z3.Implies(c, self.truth(v, st)) for c, v in zip(conds, vals)] or [TRUE]))
            # next(gen[, default])
            default = self.ev(e.args[1], st) if len(e.args) > 1 else None
            if default is None:
                self.safety("next() finds an element (StopIteration)", st, z3.Or(conds or [FALSE]))
                if not vals:
                    raise VCError("next() over empty constant list")
                r = vals[-1]
                rest = list(zip(conds, vals))[:-1]
            else:
                r = default
                rest = list(zip(conds, vals))
            for c, v in reversed(rest):
                r = self.ite(c, v, r)
            return r
        if isinstance(src, ListV):
            nlen = self.llen(st, src)
            k = fresh("k")
            st2 = st.cp()
            self.bind(gen.target, self.lget(st, src, k), st2)
            self.guards.append(z3.And(0 <= k, k < nlen))
            try:
                c = z3.And([self.truth(self.ev(i, st2), st2) for i in gen.ifs]) if gen.ifs else TRUE
                self.guards.append(c)
                v = self.ev(g.elt, st2)
                tv = self.truth(v, st2)
            finally:
                del self.guards[-(2 if len(self.guards) >= 2 else 1):]
            rng = z3.And(0 <= k, k < nlen)
            if n == "any":
                return BoolV(z3.Exists([k], z3.And(rng, c, tv)))
            if n == "all":
                return BoolV(safe_forall([k], z3.Implies(z3.And(rng, c), tv)))
            # next(elt for x in [reversed] L if cond) without default: the first (last) matching element
            if len(e.args) > 1:
                raise VCError("next() with default over a heap list")
            j = fresh("nx")
            cj = z3.substitute(c, (k, j))
            self.safety("next() finds an element (StopIteration)", st, z3.Exists([k], z3.And(rng, c)))
            before = z3.And(k > j, k < nlen) if getattr(self, "_rev_iter", False) else z3.And(0 <= k, k < j)
            st.pc.append(z3.Implies(z3.And(self.guards) if self.guards else TRUE,
                                    z3.Implies(z3.Exists([k], z3.And(rng, c)), z3.And(0 <= j, j < nlen, cj, safe_forall([k], z3.Implies(before, z3.Not(c)))))))
            if not isinstance(v, Num):
                raise VCError("next() element kind")
            return Num(z3.substitute(v.v, (k, j)), real=v.real)
        raise VCError(f"{n}() over {src!r}")

    # ------------------------------------------------------------------ statements
    def block(self, stmts, st):
        outs = [("n", st, None)]
        for x in stmts:
            nxt = []
            for k, t, v in outs:
                if k == "n":
                    nxt += self.stmt(x, t)
                else:
                    nxt.append((k, t, v))
            outs = nxt
        return outs

    def stmt(self, x, st):
        self.cur_line = getattr(x, "lineno", self.cur_line)
        if isinstance(x, (ast.Assign, ast.Return, ast.Expr, ast.AugAssign)):
            pre, x2 = self.desugar_comprehensions(x)
            if pre:
                return self.block(pre + [x2], st)
        m = getattr(self, "st_" + type(x).__name__, None)
        if m is None:
            raise VCError(f"statement {type(x).__name__} outside subset at line {x.lineno}")
        if self.contract is not None and self.contract.asserts and self.depth == 0 and not self.silent and not isinstance(x, (ast.If, ast.While)):
            src = " ".join(ast.unparse(x).split())
            for nm, anchor, expr in self.contract.asserts:
                if src.startswith(" ".join(anchor.split())):
                    t = st.cp()
                    g = self.truth(self.spec_ev(expr, t), t)
                    self.oblige(f"assert-at[{nm}]@{x.lineno}", t, g, "assert-at", text=expr)
                    self.__dict__.setdefault("anchors_hit", set()).add(nm)
                    st = st.cp()
                    st.pc = list(t.pc) + [g]          # checked here on every path, hence available from here on (assert, then assume)
        if self.contract is not None and self.contract.lemma_at and not isinstance(x, (ast.If, ast.For, ast.While)):
            src = " ".join(ast.unparse(x).split())
            for lname, anchor, expr in self.contract.lemma_at:
                if src.startswith(" ".join(anchor.split())):
                    if lname not in self.ctx.lemmas:
                        raise VCError(f"unknown lemma {lname}")
                    st = st.cp()
                    st.pc.append(self.truth(self.spec_ev(expr, st), st))
                    self.notes.append(f"L: instance of lemma {lname} assumed before `{anchor[:50]}`")
                    self.__dict__.setdefault("anchors_hit", set()).add("lemma:" + lname)
        if self.contract is not None and self.contract.assume_after and self.depth == 0 and not isinstance(x, (ast.If, ast.For, ast.While)):
            src = " ".join(ast.unparse(x).split())
            hits = [(nm, expr) for nm, anchor, expr in self.contract.assume_after if src.startswith(" ".join(anchor.split()))]
            if hits:
                outs = []
                for k, t, v in m(x, st):
                    if k == "n":
                        t = t.cp()
                        for nm, expr in hits:
                            t.pc.append(self.truth(self.spec_ev(expr, t), t))
                            self.notes.append(f"A: assumed after `{src[:60]}`: {nm}: {expr}")
                    outs.append((k, t, v))
                return outs
        return m(x, st)

    def desugar_comprehensions(self, x):
        """[f(y) for y in L] with a user-level call inside  ==>  tmp = []; for y in L: tmp.append(f(y))
        (the synthesised loop takes its invariant from the contract like any other loop)"""
        pre = []
        ex = self

        class T(ast.NodeTransformer):
            def visit_ListComp(self, n):
                self.generic_visit(n)
                has_call = any(ex.is_user_call(c) for c in ast.walk(n.elt)) or any(ex.is_user_call(c) for g in n.generators for c in ast.walk(g.iter))
                if has_call and not any(ex.is_user_call(c) for c in ast.walk(n.elt)) and not any(ex.is_user_call(c) for g in n.generators for i_ in g.ifs for c in ast.walk(i_)):
                    return n          # only the iterable contains a user call: it is hoisted like any other call, the comprehension stays one
                if not has_call or len(n.generators) != 1 or n.generators[0].ifs and False:
                    return n
                g = n.generators[0]
                names = ex.__dict__.setdefault("comp_names", {})
                tmp = names.setdefault((ex.depth, n.lineno, n.col_offset), f"_comp{len(names)}")
                body = ast.Expr(value=ast.Call(func=ast.Attribute(value=ast.Name(id=tmp, ctx=ast.Load()), attr="append", ctx=ast.Load()), args=[n.elt], keywords=[]))
                if g.ifs:
                    test = g.ifs[0] if len(g.ifs) == 1 else ast.BoolOp(op=ast.And(), values=list(g.ifs))
                    body = ast.If(test=test, body=[body], orelse=[])
                loop = ast.For(target=g.target, iter=g.iter, body=[body], orelse=[])
                init = ast.Assign(targets=[ast.Name(id=tmp, ctx=ast.Store())], value=ast.Call(func=ast.Name(id="__newlist__", ctx=ast.Load()), args=[], keywords=[]))
                for node in (init, loop):
                    ast.copy_location(node, n)
                    ast.fix_missing_locations(node)
                pre.extend([init, loop])
                return ast.copy_location(ast.Name(id=tmp, ctx=ast.Load()), n)
        if not any(isinstance(n, ast.ListComp) for n in ast.walk(x)):
            return [], x
        x2 = T().visit(_copy.deepcopy(x))
        return pre, x2

    # -- user-call hoisting ------------------------------------------------------------
    def user_calls(self, node):
        """user-level calls (contracted / inlinable / constructors / properties) in evaluation order"""
        found = []

        def visit(n, blocked):
            if isinstance(n, ast.ListComp) and len(n.generators) == 1:
                visit(n.generators[0].iter, blocked)      # the iterable of a comprehension is evaluated once, before anything else of it
                return
            if isinstance(n, (ast.Lambda, ast.ListComp, ast.GeneratorExp, ast.DictComp, ast.SetComp)):
                return
            if isinstance(n, ast.BoolOp):
                visit(n.values[0], blocked)
                for v in n.values[1:]:
                    visit(v, True)
                return
            if isinstance(n, ast.IfExp):
                visit(n.test, blocked)
                visit(n.body, True)
                visit(n.orelse, True)
                return
            for c in ast.iter_child_nodes(n):
                visit(c, blocked)
            if self.is_user_call(n):
                if blocked:
                    raise VCError(f"user call under short-circuit at line {n.lineno}")
                found.append(n)
        visit(node, False)
        return found

    def is_user_call(self, n):
        if isinstance(n, ast.Attribute) and isinstance(n.ctx, ast.Load):
            return self.property_of(n) is not None
        if not isinstance(n, ast.Call):
            return False
        f = n.func
        if isinstance(f, ast.Name):
            return (f.id in self.ctx.sources.classes and f.id not in self.ctx.enums) or f.id in self.ctx.sources.functions or f.id in self.local_defs
        if isinstance(f, ast.Attribute):
            if f.attr in self.ctx.method_names or f.attr in LIST_METHODS or f.attr == "__class__":
                return True
            if isinstance(f.value, ast.Name) and f.value.id == "copy" and f.attr == "copy":
                return True
            if isinstance(f.value, ast.Call) and isinstance(f.value.func, ast.Name) and f.value.func.id == "super":
                return True
        return False

    local_defs = {}

    def property_of(self, n):
        if n.attr in self.ctx.property_names:
            return n.attr
        return None

    def hoisted(self, expr, st, cont):
        """evaluate user calls inside `expr` first (forking), then call cont(expr', state) for each normal outcome"""
        if expr is None:
            return cont(None, st)
        calls = self.user_calls(expr)
        if not calls:
            return cont(expr, st)
        results = []

        def go(i, st_i, mapping):
            if i == len(calls):
                new = _Subst(mapping).visit(_copy.deepcopy(expr))
                results.extend(cont(new, st_i))
                return
            node = _Subst(mapping).visit(_copy.deepcopy(calls[i]))
            for k, t, v in self.do_user_call(node, st_i):
                if k == "n":
                    tmp = f"@t{id(calls[i])}"
                    t = t.cp()
                    t.env[tmp] = v
                    m2 = dict(mapping)
                    m2[self.node_key(calls[i])] = tmp
                    go(i + 1, t, m2)
                else:
                    results.append((k, t, v))
        go(0, st, {})
        return results

    @staticmethod
    def node_key(n):
        return (n.lineno, n.col_offset, n.end_lineno, n.end_col_offset, type(n).__name__)

    def st_Expr(self, x, st):
        if isinstance(x.value, ast.Constant):
            return [("n", st, None)]
        if isinstance(x.value, ast.Call) and isinstance(x.value.func, ast.Attribute) and x.value.func.attr in ("info", "debug", "warning", "error") :
            return [("n", st, None)]  # LOGGER.* dropped by extraction (section 9.3)
        return self.hoisted(x.value, st, lambda e, s: [("n", s, None)] if isinstance(e, ast.Name) and e.id.startswith("@t") else self._expr_effect(e, s))

    def _expr_effect(self, e, st):
        st = st.cp()
        self.ev(e, st)
        return [("n", st, None)]

    def st_Pass(self, x, st):
        return [("n", st, None)]

    def st_Import(self, x, st):
        return [("n", st, None)]

    st_ImportFrom = st_Import

    def st_Assert(self, x, st):
        def cont(e, s):
            s = s.cp()
            c = self.truth(self.ev(e, s), s)
            self.oblige(f"assert@{x.lineno}", s, c, "assert", text=ast.unparse(x.test))
            s.pc.append(c)
            return [("n", s, None)]
        return self.hoisted(x.test, st, cont)

    def st_Assign(self, x, st):
        if len(x.targets) != 1:
            raise VCError("chained assignment")

        def cont(e, s):
            s = s.cp()
            v = self.ev(e, s)
            return self.assign(x.targets[0], v, s)
        return self.hoisted(x.value, st, cont)

    def st_AnnAssign(self, x, st):
        if x.value is None:
            return [("n", st, None)]
        return self.st_Assign(ast.Assign(targets=[x.target], value=x.value, lineno=x.lineno), st)

    def assign(self, tgt, v, st):
        if isinstance(tgt, ast.Name):
            if isinstance(v, ConstList) and not self.keep_const_list(v):
                v = self.materialise(st, v)
            if isinstance(v, DictObj) and not v.entries and self.contract is not None and self.contract.local_types.get(tgt.id, "").startswith("absdict:") and self.depth == 0:
                v = AbsDictV(self.contract.local_types[tgt.id].split(":", 1)[1], tgt.id)
                st.meta = dict(st.meta)
                st.meta["dict_birth"] = dict(st.meta.get("dict_birth", {}), **{tgt.id: st.heap["@alloc"]})
                self.absdict_checks(tgt.id)
            if isinstance(v, ListV) and v.elem == "?" and self.contract is not None and tgt.id in self.contract.local_types:
                v.elem = self.contract.local_types[tgt.id].split(":", 1)[1]
            if isinstance(v, ListV) and tgt.id in getattr(self, "frozen_locals", ()) and self.depth == 0:
                # a local list that is never mutated, stored or passed on after this (single) assignment: its content is fixed here
                v = ListV(v.v, v.elem, v.none)
                v.frozen_heap = dict(st.heap)
                self.notes.append(f"A: local list `{tgt.id}` is never mutated or passed on after its construction in {self.qual} (checked syntactically)")
            st.env[tgt.id] = v
            return [("n", st, None)]
        if isinstance(tgt, ast.Tuple):
            self.bind(tgt, v, st)
            return [("n", st, None)]
        if isinstance(tgt, ast.Attribute):
            def cont(e, s):
                s = s.cp()
                r = self.ev(e, s)
                if isinstance(r, ListV) and tgt.attr == "name":
                    self.notes.append("dropped: assignment of a display name to a mido track")
                    return [("n", s, None)]
                if not isinstance(r, Ref):
                    raise VCError("attribute store on non-object")
                self.need(r, s, "object of attribute store")
                vv = v
                if isinstance(vv, ConstList):
                    vv = self.materialise(s, vv)
                self.write_field(s, r, tgt.attr, vv)
                self.on_write(s, r, tgt.attr, vv)
                return [("n", s, None)]
            return self.hoisted(tgt.value, st, cont)
        if isinstance(tgt, ast.Subscript):
            return self.store_subscript(tgt, v, st)
        raise VCError("assignment target")

    def on_write(self, st, ref, field, val):
        pass

    def keep_const_list(self, v):
        return not all(isinstance(x, (Num, Ref)) for x in v.items) or len(v.items) == 0 and False

    def materialise(self, st, cl, elem=None):
        """turn a constant-length Python-level list into a heap list"""
        if elem is None:
            if not cl.items:
                elem = "?"
            elif all(isinstance(x, Num) and not x.real for x in cl.items):
                elem = "int"
            elif all(isinstance(x, Ref) for x in cl.items):
                elem = "ref:" + cl.items[0].cls
            else:
                return cl
        arr = fresh("lit", z3.ArraySort(I, I))
        for k, x in enumerate(cl.items):
            arr = z3.Store(arr, k, x.v)
        return self.new_list(st, elem, len(cl.items), arr)

    def store_subscript(self, tgt, v, st):
        def cont(e, s):
            s = s.cp()
            c = self.ev(e, s)
            if isinstance(c, DictObj):
                key = self.ev(tgt.slice, s)
                if not (isinstance(key, StrV) and key.const() is not None and isinstance(tgt.value, ast.Name)):
                    raise VCError("dict store form")
                s.env[tgt.value.id] = c.with_(key.const(), v)
                return [("n", s, None)]
            if isinstance(c, AbsDictV):
                self.ev(tgt.slice, s)
                self.absdict_store(s, c, v, tgt.value)
                return [("n", s, None)]
            if not isinstance(c, ListV):
                raise VCError(f"subscript store into {c!r}")
            if isinstance(tgt.slice, ast.Slice):
                lo = self.ev(tgt.slice.lower, s) if tgt.slice.lower else None
                hi = self.ev(tgt.slice.upper, s) if tgt.slice.upper else None
                if lo is None or hi is None or not (z3.is_int_value(z3.simplify(lo.v)) and z3.simplify(lo.v).as_long() == 0 and z3.simplify(hi.v).as_long() == 0):
                    raise VCError("slice store other than [0:0]")
                src = v if isinstance(v, ListV) else self.materialise(s, v, c.elem)
                cat = self.list_concat(s, src, c)
                self.lset_arr(s, c, s.heap["@el"][cat.v], s.heap["@len"][cat.v])
                return [("n", s, None)]
            i = self.ev(tgt.slice, s)
            n = self.llen(s, c)
            self.safety("index in range (store)", s, z3.And(0 <= i.v, i.v < n))
            self.lset_arr(s, c, z3.Store(s.heap["@el"][c.v], i.v, term_of(v)), n)
            return [("n", s, None)]
        return self.hoisted(tgt.value, st, cont)

    def st_AugAssign(self, x, st):
        load = _copy.deepcopy(x.target)
        for n in ast.walk(load):
            if hasattr(n, "ctx"):
                n.ctx = ast.Load()
        new = ast.BinOp(left=load, op=x.op, right=x.value, lineno=x.lineno, col_offset=x.col_offset, end_lineno=x.end_lineno, end_col_offset=x.end_col_offset)
        ast.fix_missing_locations(new)
        if isinstance(x.target, ast.Name) and isinstance(st.env.get(x.target.id), ListV) and isinstance(x.op, ast.Add):
            # list += list  is in-place extend
            call = ast.Expr(value=ast.Call(func=ast.Attribute(value=ast.Name(id=x.target.id, ctx=ast.Load()), attr="extend", ctx=ast.Load()), args=[x.value], keywords=[]))
            ast.copy_location(call, x)
            ast.fix_missing_locations(call)
            return self.st_Expr(call, st)
        return self.st_Assign(ast.Assign(targets=[x.target], value=new, lineno=x.lineno), st)

    def st_Return(self, x, st):
        def cont(e, s):
            s = s.cp()
            v = self.ev(e, s) if e is not None else NONE
            if isinstance(v, ConstList):
                v = self.materialise(s, v)
            return [("r", s, v)]
        return self.hoisted(x.value, st, cont)

    def st_Break(self, x, st):
        return [("b", st, None)]

    def st_Continue(self, x, st):
        return [("c", st, None)]

    def st_Raise(self, x, st):
        exc = x.exc
        name = exc.func.id if isinstance(exc, ast.Call) and isinstance(exc.func, ast.Name) else (exc.id if isinstance(exc, ast.Name) else "Exception")
        return [("x", st, name)]

    def known_facts(self, st):
        """(term, constant) pairs from top-level conjuncts of the path condition (case assumptions, decided branches): used to
        decide branch conditions syntactically instead of by a solver call"""
        cache = st.meta.get("_facts")
        if cache is not None and cache[0] == len(st.pc):
            return cache[1]
        start, pairs = (cache[0], list(cache[1])) if cache is not None else (0, [])
        stack = list(st.pc[start:])
        while stack:
            a = stack.pop()
            if _has_quant(a):
                continue
            if z3.is_and(a):
                stack.extend(a.children())
            elif z3.is_eq(a) and len(a.children()) == 2:
                l, r = a.children()
                if z3.is_true(r) or z3.is_false(r) or z3.is_int_value(r):
                    pairs.append((l, r))
                elif z3.is_true(l) or z3.is_false(l) or z3.is_int_value(l):
                    pairs.append((r, l))
            elif z3.is_not(a) and z3.is_app(a.arg(0)) and a.arg(0).num_args() <= 2 and not z3.is_and(a.arg(0)) and not z3.is_or(a.arg(0)):
                pairs.append((a.arg(0), z3.BoolVal(False)))
            elif z3.is_app(a) and a.sort() == B and not z3.is_or(a) and not z3.is_app_of(a, z3.Z3_OP_IMPLIES) and not z3.is_true(a):
                pairs.append((a, z3.BoolVal(True)))
        st.meta["_facts"] = (len(st.pc), pairs)
        return pairs

    def st_If(self, x, st):
        def cont(e, s):
            s0 = s.cp()
            c = self.truth(self.ev(e, s0), s0)
            cs = z3.simplify(c)
            if not (z3.is_true(cs) or z3.is_false(cs)):
                facts = self.known_facts(s0)
                if facts:
                    cs = z3.simplify(z3.substitute(cs, *facts))
            outs = []
            for cond, body in ((cs, x.body), (z3.simplify(z3.Not(cs)), x.orelse)):
                if z3.is_false(cond):
                    continue
                b = s0.cp()
                if not z3.is_true(cond):
                    if not self.feasible(b, cond):
                        continue
                    b.pc.append(cond)
                outs += self.block(body, b)
            return outs
        return self.hoisted(x.test, st, cont)

    def st_FunctionDef(self, x, st):
        st = st.cp()
        st.env[x.name] = Closure(x, None)
        return [("n", st, None)]

    def st_Nonlocal(self, x, st):
        return [("n", st, None)]

    def st_Try(self, x, st):
        if x.handlers or x.orelse:
            raise VCError("try/except")
        outs = []
        for k, t, v in self.block(x.body, st):
            for k2, t2, v2 in self.block(x.finalbody, t):
                outs.append((k, t2, v) if k2 == "n" else (k2, t2, v2))
        return outs

    # -- loops ---------------------------------------------------------------------
    @staticmethod
    def readonly_list_params(fn):
        """parameters that are only ever read: used as `for x in p`, `p[i]`, `len(p)`"""
        params = {a.arg for a in fn.args.args} - {"self"}
        bad = set()
        for n in ast.walk(fn):
            if isinstance(n, ast.Name) and n.id in params:
                par = getattr(n, "_parent", None)
            if isinstance(n, ast.Call):
                for a in list(n.args) + [k.value for k in n.keywords]:
                    if isinstance(a, ast.Name) and a.id in params and not (isinstance(n.func, ast.Name) and n.func.id in ("len", "enumerate", "range", "isinstance")):
                        bad.add(a.id)
                if isinstance(n.func, ast.Attribute) and isinstance(n.func.value, ast.Name) and n.func.value.id in params:
                    bad.add(n.func.value.id)
            if isinstance(n, (ast.Assign, ast.AugAssign, ast.AnnAssign)):
                val = n.value
                for y in ast.walk(val) if val is not None else []:
                    if isinstance(y, ast.Name) and y.id in params and not isinstance(getattr(y, "ctx", None), ast.Store):
                        # p appears on a right-hand side: allowed only under len(p) / p[i]
                        pass
                tg = n.targets if isinstance(n, ast.Assign) else [n.target]
                for t in tg:
                    for y in ast.walk(t):
                        if isinstance(y, ast.Name) and y.id in params:
                            bad.add(y.id)
                if isinstance(val, ast.Name) and val.id in params:
                    bad.add(val.id)
            if isinstance(n, (ast.Return, ast.Yield)) and isinstance(n.value, ast.Name) and n.value.id in params:
                bad.add(n.value.id)
            if isinstance(n, (ast.List, ast.Tuple, ast.Dict)):
                for y in ast.iter_child_nodes(n):
                    if isinstance(y, ast.Name) and y.id in params:
                        bad.add(y.id)
        return params - bad

    @staticmethod
    def private_list_locals(fn):
        """local lists created by this function (from a list literal / comprehension) that never escape: never passed to a call,
        stored into an object or container, or aliased.  Callees cannot reach them, so calls leave them unchanged."""
        cands = set()
        for n in ast.walk(fn):
            if isinstance(n, ast.Assign) and len(n.targets) == 1 and isinstance(n.targets[0], ast.Name) and isinstance(n.value, (ast.List, ast.ListComp)):
                cands.add(n.targets[0].id)
        bad = set()
        for n in ast.walk(fn):
            if isinstance(n, ast.Call):
                for a in list(n.args) + [k.value for k in n.keywords]:
                    if isinstance(a, ast.Name) and a.id in cands and not (isinstance(n.func, ast.Name) and n.func.id in ("len", "enumerate", "range", "sorted", "min", "max", "any", "all")):
                        bad.add(a.id)
            if isinstance(n, ast.Assign):
                if isinstance(n.value, ast.Name) and n.value.id in cands:
                    bad.add(n.value.id)
                for t in n.targets:
                    if isinstance(t, (ast.Attribute, ast.Subscript)) and isinstance(n.value, ast.Name) and n.value.id in cands:
                        bad.add(n.value.id)
            if isinstance(n, (ast.List, ast.Tuple, ast.Dict)):
                for y in ast.iter_child_nodes(n):
                    if isinstance(y, ast.Name) and y.id in cands:
                        bad.add(y.id)
        return cands - bad

    @staticmethod
    def dict_separate_locals(fn):
        """local names bound exactly once, to a list literal / comprehension, that never occur as the value of a subscript store or as an
        argument of setdefault: the list they denote is never put into a dict by this function"""
        count, cands = {}, set()
        for n in ast.walk(fn):
            if isinstance(n, ast.Assign) and len(n.targets) == 1 and isinstance(n.targets[0], ast.Name):
                count[n.targets[0].id] = count.get(n.targets[0].id, 0) + 1
                if isinstance(n.value, (ast.List, ast.ListComp)):
                    cands.add(n.targets[0].id)
            elif isinstance(n, (ast.AugAssign, ast.AnnAssign, ast.For)) and isinstance(getattr(n, "target", None), ast.Name):
                count[n.target.id] = count.get(n.target.id, 0) + 2
        cands = {c for c in cands if count.get(c) == 1}
        bad = set()
        for n in ast.walk(fn):
            if isinstance(n, ast.Assign) and any(isinstance(t, ast.Subscript) for t in n.targets):
                bad |= {y.id for y in ast.walk(n.value) if isinstance(y, ast.Name)}
            if isinstance(n, ast.Call) and isinstance(n.func, ast.Attribute) and n.func.attr == "setdefault":
                for a in n.args:
                    bad |= {y.id for y in ast.walk(a) if isinstance(y, ast.Name)}
        return cands - bad

    @staticmethod
    def frozen_list_locals(fn):
        """locals assigned exactly once (from a comprehension) and afterwards only indexed / iterated / measured / returned"""
        assigned = {}
        for n in ast.walk(fn):
            if isinstance(n, ast.Assign) and len(n.targets) == 1 and isinstance(n.targets[0], ast.Name):
                assigned.setdefault(n.targets[0].id, []).append(n)
            elif isinstance(n, (ast.AugAssign, ast.AnnAssign, ast.For)) and isinstance(getattr(n, "target", None), ast.Name):
                assigned.setdefault(n.target.id, []).append(n)
        cands = {k for k, v in assigned.items() if len(v) == 1 and isinstance(v[0], ast.Assign) and isinstance(v[0].value, (ast.ListComp, ast.Call))}
        bad = set()
        for n in ast.walk(fn):
            if isinstance(n, ast.Call):
                for a in list(n.args) + [k.value for k in n.keywords]:
                    if isinstance(a, ast.Name) and a.id in cands and not (isinstance(n.func, ast.Name) and n.func.id in ("len", "enumerate", "range", "zip", "reversed", "sorted")):
                        bad.add(a.id)
                if isinstance(n.func, ast.Attribute) and isinstance(n.func.value, ast.Name) and n.func.value.id in cands:
                    bad.add(n.func.value.id)
            if isinstance(n, (ast.Assign, ast.AugAssign)):
                tg = n.targets if isinstance(n, ast.Assign) else [n.target]
                for t in tg:
                    if isinstance(t, ast.Subscript) and isinstance(t.value, ast.Name) and t.value.id in cands:
                        bad.add(t.value.id)
                if isinstance(n.value, ast.Name) and n.value.id in cands:
                    bad.add(n.value.id)
            if isinstance(n, (ast.List, ast.Tuple, ast.Dict)):
                for y in ast.iter_child_nodes(n):
                    if isinstance(y, ast.Name) and y.id in cands:
                        bad.add(y.id)
            if isinstance(n, ast.Nonlocal):
                bad |= set(n.names)
        return cands - bad

    def name_loops(self, fn):
        """loop names are syntactic: pre-order position among the for/while loops (and desugared comprehensions) of the function"""
        locs = []
        inner = [n for n in ast.walk(fn) if isinstance(n, ast.FunctionDef) and n is not fn]
        skip = {id(x) for f in inner for x in ast.walk(f) if x is not f}
        for n in ast.walk(fn):
            if id(n) in skip:
                continue
            if isinstance(n, (ast.For, ast.While)):
                locs.append((n.lineno, n.col_offset))
            elif isinstance(n, ast.ListComp) and len(n.generators) == 1 and (any(self.is_user_call(c) for c in ast.walk(n.elt)) or any(self.is_user_call(c) for i_ in n.generators[0].ifs for c in ast.walk(i_))):
                locs.append((n.lineno, n.col_offset))
        return {loc: f"L{k}" for k, loc in enumerate(sorted(set(locs)))}

    def loop_spec(self, x):
        names = getattr(self, "loop_names", None)
        if names is not None and (x.lineno, x.col_offset) in names:
            name = getattr(self, "loop_prefix", "") + names[(x.lineno, x.col_offset)]
        else:
            name = getattr(self, "loop_prefix", "") + f"L{self.loop_counter}"
        self.loop_counter += 1
        spec = (self.contract.loops if self.contract else {}).get(name)
        head = ast.unparse(x.target) + " in " + ast.unparse(x.iter) if isinstance(x, ast.For) else ast.unparse(x.test)
        head = ("for " if isinstance(x, ast.For) else "while ") + head
        if spec is None:
            raise VCError(f"loop {name} `{head}` at line {x.lineno} has no invariant")
        # only the loop kind is binding: a changed condition/iterable must be *checked* against the invariant
        # (it is exactly what a breaking change looks like), not skipped as "undecided"
        if spec.get("fingerprint") and spec["fingerprint"].split()[0] != head.split()[0]:
            raise VCError(f"loop {name} kind mismatch: contract has `{spec['fingerprint']}`, code has `{head}`")
        if spec.get("fingerprint") and spec["fingerprint"] != head:
            self.notes.append(f"loop {name}: head changed from `{spec['fingerprint']}` to `{head}`")
        return name, spec

    def assigned(self, stmts):
        names, fields, lists = set(), set(), False
        for n in ast.walk(ast.Module(body=list(stmts), type_ignores=[])):
            tg = []
            if isinstance(n, ast.Assign):
                tg = n.targets
            elif isinstance(n, (ast.AugAssign, ast.AnnAssign)):
                tg = [n.target]
            elif isinstance(n, ast.For):
                tg = [n.target]
            elif isinstance(n, ast.Nonlocal):
                pass
            for t in tg:
                for y in ast.walk(t):
                    if isinstance(y, ast.Name) and isinstance(y.ctx, ast.Store):
                        names.add(y.id)
                    if isinstance(y, ast.Attribute) and isinstance(y.ctx, ast.Store):
                        fields.add(y.attr)
                    if isinstance(y, ast.Subscript) and isinstance(y.ctx, ast.Store):
                        lists = True
            if isinstance(n, ast.Call):
                if isinstance(n.func, ast.Attribute) and n.func.attr in LIST_MUTATORS:
                    lists = True
                eff = self.call_effects(n)
                if eff:
                    fields |= eff[0]
                    lists = lists or eff[1]
                    names |= eff[2]
            if isinstance(n, ast.ListComp) or (isinstance(n, ast.List)) or isinstance(n, ast.BinOp):
                pass
        return names, fields, lists

    def mutates_config(self, stmts):
        """does the code mutate a list reached through an attribute (e.g. self.step_sizes.append)?"""
        for n in ast.walk(ast.Module(body=list(stmts), type_ignores=[])):
            if isinstance(n, ast.Call) and isinstance(n.func, ast.Attribute) and n.func.attr in LIST_MUTATORS and isinstance(n.func.value, ast.Attribute) \
                    and isinstance(n.func.value.value, ast.Name) and n.func.value.value.id == "self":
                return True
        return False

    def mutated_list_names(self, stmts, depth=0):
        """names of the local lists structurally mutated by these statements (incl. called closures); None if a mutation goes
        through anything other than a plain local name or a callee may mutate pre-existing lists"""
        out = set()
        for n in ast.walk(ast.Module(body=list(stmts), type_ignores=[])):
            if isinstance(n, ast.Call) and isinstance(n.func, ast.Attribute) and n.func.attr in LIST_MUTATORS:
                if isinstance(n.func.value, ast.Name):
                    out.add(n.func.value.id)
                else:
                    return None
            elif isinstance(n, (ast.Assign, ast.AugAssign)):
                for t in (n.targets if isinstance(n, ast.Assign) else [n.target]):
                    if isinstance(t, ast.Subscript):
                        if isinstance(t.value, ast.Name):
                            out.add(t.value.id)
                        else:
                            return None
                if isinstance(n, ast.AugAssign) and isinstance(n.target, ast.Name):
                    out.add(n.target.id)
            elif isinstance(n, ast.Call):
                f = n.func
                name = f.id if isinstance(f, ast.Name) else (f.attr if isinstance(f, ast.Attribute) else None)
                if isinstance(f, ast.Name) and name in self.local_defs and depth < 2:
                    sub = self.mutated_list_names(self.local_defs[name].body, depth + 1)
                    if sub is None:
                        return None
                    out |= sub
                    continue
                for q, c in self.ctx.contracts.items():
                    if (q.split(".")[-1] == name or (name in self.ctx.sources.classes and q == f"{name}.__init__")) and "@lists" in c.modifies:
                        return None
                if name in self.ctx.method_names and not any(q.split(".")[-1] == name for q in self.ctx.contracts) and name not in LIST_MUTATORS and name not in ("index", "copy", "split", "get", "pop", "value", "item", "info", "is_integer"):
                    return None          # inlined callee without contract: its effects are not summarised
        return out

    def call_effects(self, n):
        """(fields written, lists mutated/allocated, nonlocal names) by a user call -- from the callee contract or body"""
        f = n.func
        name = f.id if isinstance(f, ast.Name) else (f.attr if isinstance(f, ast.Attribute) else None)
        if name is None:
            return None
        if isinstance(f, ast.Name) and name in self.local_defs:
            node = self.local_defs[name]
            names, fields, lists = self.assigned(node.body)
            nl = set()
            for s in ast.walk(node):
                if isinstance(s, ast.Nonlocal):
                    nl |= set(s.names)
            return fields, lists, names & nl
        cands = [c for q, c in self.ctx.contracts.items() if (q.split("#")[0].split(".")[-1] == name and not q.endswith("#loops")) or (name in self.ctx.sources.classes and q.endswith(f".{name}.__init__"))]
        fields, lists = set(), False
        if not cands and name not in self.ctx.sources.classes:
            # callee without a contract (it will be inlined): its effects are read off its body -- every method / function of that name
            stack = getattr(self, "_eff_stack", set())
            if name not in stack:
                self._eff_stack = stack | {name}
                try:
                    bodies = [c["methods"][name] for c in self.ctx.sources.classes.values() if name in c["methods"]]
                    if isinstance(f, ast.Name) and name in self.ctx.sources.functions:
                        bodies.append(self.ctx.sources.functions[name])
                    for b in bodies:
                        nm_, fl_, ls_ = self.assigned(b.body)
                        fields |= fl_
                        lists = lists or ls_
                finally:
                    self._eff_stack = stack
        for c in cands:
            for fld in c.modifies:
                if fld == "@lists":
                    lists = True
                elif fld == "@alloc":
                    pass
                else:
                    fields.add(fld)
        if name in self.ctx.sources.classes:
            fields |= set(self.ctx.schema.get(name, {}).keys())
            for b in self.ctx.mro(name)[1:]:
                fields |= set(self.ctx.schema.get(b, {}).keys())
            lists = True
        return fields, lists, set()

    def run_loop(self, x, st, iter_list=None, enum=False):
        name, spec = self.loop_spec(x)
        isfor = isinstance(x, ast.For)
        names, fields, lists = self.assigned(x.body)
        entry_env, entry_heap = dict(st.env), dict(st.heap)
        invs = []
        for nm, src in spec.get("inv", []):
            for k, cj in enumerate(conjuncts(src)):
                invs.append((f"{nm}.{k}" if len(conjuncts(src)) > 1 else nm, cj))
        invs += self.frame_invariants(fields, lists)
        if lists:
            mut = self.mutated_list_names(x.body)
            if mut is not None:
                # loop-local frame: only the lists named by the mutating statements of the body change during the loop
                invs.append(("loop-frame[@lists]", "__loopframe__(" + ", ".join(repr(m) for m in sorted(mut)) + ")"))

        def inv_terms(state, i):
            t = state.cp()
            if i is not None:
                t.env["i"] = Num(i)
            t.meta = dict(t.meta)
            t.meta["entry_env"], t.meta["entry_heap"] = entry_env, entry_heap
            out = []
            for nm, src in invs:
                try:
                    out.append((nm, self.truth(self.spec_ev(src, t), t), src))
                except VCError as ex:
                    raise VCError(f"invariant {name}.{nm}: {ex}")
            return out, t

        # ---- init
        L = iter_list
        terms, t0 = inv_terms(st, z3.IntVal(0) if isfor else None)
        for nm, g, src in terms:
            self.oblige(f"inv-init[{name}].{nm}", t0, g, "inv-init", text=src)
        # ---- shapes for havoc: one silent body run from the entry state
        shapes = {n: st.env.get(n) for n in names}
        sil, self.silent = self.silent, True
        obl_n, lc = len(self.obls), self.loop_counter
        feas, self.feasibility = self.feasibility, False
        try:
            b0 = st.cp()
            if isfor:
                self.bind_iter(x, L, z3.IntVal(0), b0, enum)
            else:
                pass
            for k, t, v in self.block(x.body, b0):
                for n in names:
                    if n in t.env:
                        shapes[n] = join_shape(shapes.get(n), t.env[n])
        except VCError:
            pass
        finally:
            self.silent, self.feasibility = sil, feas
            del self.obls[obl_n:]
            self.loop_counter = lc
        # ---- havoc
        h = st.cp()
        for n in names:
            if shapes.get(n) is not None:
                h.env[n] = fresh_like(shapes[n], n)
            elif n in h.env:
                del h.env[n]
        for f in fields:
            if f in h.heap:
                h.heap[f] = fresh(f, h.heap[f].sort())
                if f + "?" in h.heap:
                    h.heap[f + "?"] = fresh(f + "_isnone", h.heap[f + "?"].sort())
        if lists:
            for a in ("@len", "@el", "@alloc"):
                h.heap[a] = fresh("H" + a[1:], h.heap[a].sort())
            r = fresh("r")
            h.pc.append(safe_forall([r], z3.Implies(entry_heap["@alloc"][r], h.heap["@alloc"][r]), patterns=[h.heap["@alloc"][r]]))
        if lists or fields:
            h.pc += heap_typing(self.ctx, h.heap)
        if lists and self.depth == 0 or lists and getattr(self, "loop_prefix", ""):
            for n_, v_ in st.env.items():
                if isinstance(v_, Ref) and v_.cls == "MultiTrackLargeVocabularyNotelikeTokeniser" and not self.mutates_config(x.body):
                    for f_, t_ in self.ctx.schema[v_.cls].items():
                        if parse_type(t_)[0] == "list":
                            l_ = st.heap[f_][v_.v]
                            h.pc.append(z3.And(h.heap["@len"][l_] == st.heap["@len"][l_], h.heap["@el"][l_] == st.heap["@el"][l_]))
        i = fresh("i") if isfor else None
        terms, hi_ = inv_terms(h, i)
        hi_.meta = dict(st.meta)
        for nm, g, src in terms:
            hi_.pc.append(g)
        outs = []
        # ---- body
        body = hi_.cp()
        if isfor:
            n_ = self.iter_len(L, body)
            body.pc += [0 <= i, i < n_]
            self.bind_iter(x, L, i, body, enum)
            body.env["@i_" + name] = Num(i)
        else:
            c = self.truth(self.ev(x.test, body), body)
            body.pc.append(c)
        dec0 = None
        if spec.get("dec"):
            dm = body.cp()
            dm.meta["entry_env"], dm.meta["entry_heap"] = entry_env, entry_heap
            dec0 = self.spec_ev(spec["dec"], dm).v
        bodies = self.fork_tokens(x, body) if isfor else [body]
        for body in bodies:
          if self.feasible(body):
            for k, t, v in self.block(x.body, body):
                  if k in ("n", "c"):
                      terms, tt = inv_terms(t, (i + 1) if isfor else None)
                      for nm, g, src in terms:
                          self.oblige(f"inv-keep[{name}].{nm}", tt, g, "inv-keep", text=src)
                      if dec0 is not None:
                          dm = t.cp()
                          dm.meta["entry_env"], dm.meta["entry_heap"] = entry_env, entry_heap
                          d1 = self.spec_ev(spec["dec"], dm).v
                          self.oblige(f"dec[{name}]", t, z3.And(d1 < dec0, dec0 >= 0), "dec", text=spec["dec"])
                  elif k == "b":
                      outs.append(("n", t, None))
                  else:
                      outs.append((k, t, v))
        # ---- exit
        ex = hi_.cp()
        if isfor:
            ex.pc.append(i == self.iter_len(L, ex))
            ex.env["@i_" + name] = Num(i)
        else:
            ex.pc.append(z3.Not(self.truth(self.ev(x.test, ex), ex)))
        if self.feasible(ex):
            if x.orelse:
                outs += self.block(x.orelse, ex)
            else:
                outs.append(("n", ex, None))
        return outs

    def fork_tokens(self, x, body):
        """a loop variable bound to an element of a token list: one path per canonical token shape (tokens.shapes)"""
        from .tokens import shapes
        names = [n.id for n in ast.walk(x.target) if isinstance(n, ast.Name)]
        toks = [n for n in names if type(body.env.get(n)).__name__ == "TokV"]
        if not toks:
            return [body]
        out = [body]
        for n in toks:
            nxt = []
            for b in out:
                t = b.env[n].term
                for nm, guard, build in shapes():
                    c = b.cp()
                    c.pc.append(guard(t))
                    c.env[n] = build(t) if build is not None else StrV([("lit", "\x00not-a-token")])
                    c.env["@tok_" + n] = b.env[n]
                    nxt.append(c)
            out = nxt
        return out

    def frame_invariants(self, fields, lists):
        """automatic frame conjuncts from the function's `modifies` clause"""
        out = []
        if not self.contract:
            return out
        for f in sorted(fields):
            out.append((f"frame[{f}]", f"__frame__('{f}')"))
        if lists:
            out.append(("frame[@lists]", "__frame__('@lists')"))
        return out

    def iter_len(self, L, st):
        if isinstance(L, ZipV):
            n = self.llen(st, L.lists[0])
            for o in L.lists[1:]:
                m = self.llen(st, o)
                n = z3.If(m < n, m, n)
            return n
        if isinstance(L, ConstList):
            return z3.IntVal(len(L.items))
        if getattr(L, "frozen_heap", None) is not None:
            return L.frozen_heap["@len"][L.v]
        return self.llen(st, L)

    def bind_iter(self, x, L, i, st, enum):
        if isinstance(L, ConstList):
            raise VCError("invariant loop over constant list (should be unrolled)")
        if isinstance(L, ZipV):
            el = TupleV([self.lget(st, l_, i) for l_ in L.lists])
            self.bind(x.target, TupleV([Num(i), el]) if enum else el, st)
            return
        el = self.lget(st, L, i, heap=getattr(L, "frozen_heap", None))
        if getattr(L, "pair_key", False):
            el = TupleV([Opaque("dict-key"), el])
        if getattr(L, "from_dict_iter", None):
            (el.items[1] if isinstance(el, TupleV) else el).from_dict = L.from_dict_iter
        if enum:
            self.bind(x.target, TupleV([Num(i), el]), st)
        else:
            self.bind(x.target, el, st)

    def st_For(self, x, st):
        it = x.iter
        enum = False
        if isinstance(it, ast.Call) and isinstance(it.func, ast.Name) and it.func.id == "enumerate":
            enum = True
            it = it.args[0]

        def cont(e, s):
            s = s.cp()
            if isinstance(e, ast.Call) and isinstance(e.func, ast.Name) and e.func.id == "zip":
                ls = [self.ev(a, s) for a in e.args]
                if not all(isinstance(l_, ListV) for l_ in ls):
                    raise VCError("zip() of non-heap lists")
                return self.run_loop(x, s, iter_list=ZipV(ls), enum=enum)
            if isinstance(e, ast.Call) and isinstance(e.func, ast.Name) and e.func.id == "range":
                L = self.range_list(e, s)
                if isinstance(L, ListV):
                    L.frozen_heap = dict(s.heap)       # an anonymous range object cannot be mutated by the loop body
            else:
                L = self.ev(e, s)
                if isinstance(L, ListV) and isinstance(e, (ast.ListComp, ast.List)):
                    L.frozen_heap = dict(s.heap)       # an anonymous list (comprehension / literal) cannot be reached, hence not mutated, by the loop body
            if isinstance(L, ConstList):
                return self.unroll_for(x, L, s, enum)
            if isinstance(L, ConstDict):
                raise VCError("loop over constant dict")
            if not isinstance(L, ListV):
                raise VCError(f"for over {L!r} at line {x.lineno}")
            self.need(L, s, "iterable")
            if isinstance(e, ast.Name) and e.id in getattr(self, "readonly_params", ()):
                # a list parameter that this function never mutates, stores or passes on: iterate over its entry content
                L = ListV(L.v, L.elem, L.none)
                L.frozen_heap = s.meta.get("old_heap")
                self.notes.append(f"A: parameter list `{e.id}` is read-only in {self.qual} (checked syntactically: never mutated, assigned, stored or passed to a call) and therefore unreachable for callees")
            # structural mutation of the iterated list inside the body is outside the subset
            return self.run_loop(x, s, iter_list=L, enum=enum)
        return self.hoisted(it, st, cont)

    def unroll_for(self, x, L, st, enum):
        self.loop_counter_skip(x)
        outs_final = []
        cur = [st]
        for idx, item in enumerate(L.items):
            nxt = []
            for s in cur:
                b = s.cp()
                self.bind(x.target, TupleV([Num(idx), item]) if enum else item, b)
                save = self.loop_counter
                for k, t, v in self.block(x.body, b):
                    if k in ("n", "c"):
                        nxt.append(t)
                    elif k == "b":
                        outs_final.append(("n", t, None))
                    else:
                        outs_final.append((k, t, v))
                if idx < len(L.items) - 1:
                    self.loop_counter = save
            cur = nxt
        for s in cur:
            outs_final += self.block(x.orelse, s) if x.orelse else [("n", s, None)]
        return outs_final

    def loop_counter_skip(self, x):
        pass

    def st_While(self, x, st):
        return self.run_loop(x, st)

    # ------------------------------------------------------------------ spec expressions
    def spec_ev(self, src, st):
        node = ast.parse(src, mode="eval").body if isinstance(src, str) else src
        sil, self.silent = self.silent, True   # spec expressions generate no safety obligations
        self.in_spec = getattr(self, "in_spec", 0) + 1
        try:
            return self.ev(node, st)
        finally:
            self.silent = sil
            self.in_spec -= 1

    # ------------------------------------------------------------------ user calls (contracts / inlining)
    def do_user_call(self, node, st):
        from .calls import do_user_call
        return do_user_call(self, node, st)


LIST_MUTATORS = {"append", "insert", "pop", "extend", "remove", "sort", "clear"}
LIST_METHODS = LIST_MUTATORS | set()


class _Subst(ast.NodeTransformer):
    def __init__(self, mapping):
        self.mapping = mapping

    def generic_visit(self, node):
        if hasattr(node, "lineno") and Exec.node_key(node) in self.mapping and isinstance(node, (ast.Call, ast.Attribute)):
            return ast.copy_location(ast.Name(id=self.mapping[Exec.node_key(node)], ctx=ast.Load()), node)
        return super().generic_visit(node)
