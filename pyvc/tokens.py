"""Structured tokens (DESIGN 2.2 'str'): the token strings of the note-like tokeniser are abstracted to a z3 datatype.
The abstraction StrV <-> Token is exactly assumption STR: formatted non-negative ints are digit strings of at least the
given width without '-' or '_', so a token string determines its literal skeleton and its numbers, and vice versa."""
import z3
from .values import *

_Tok = z3.Datatype("Token")
for c in ("pad", "sta", "sto", "bar"):
    _Tok.declare(c)
_Tok.declare("rst", ("rst_v", I))
_Tok.declare("trk", ("trk_t", I))
_Tok.declare("val", ("val_v", I))
_Tok.declare("vel", ("vel_v", I))
_Tok.declare("tsg", ("tsg_n", I), ("tsg_d", I))
# note token: optional fused track / value / velocity parts around the pitch
_Tok.declare("note", ("n_ft", B), ("n_t", I), ("n_p", I), ("n_fv", B), ("n_v", I), ("n_fw", B), ("n_w", I))
_Tok.declare("bad", ("bad_k", I))
Token = _Tok.create()

CANON_W = {"rst": 2, "trk": 2, "pit": 3, "val": 2, "vel": 3, "tsg": 2}
_bad = [0]


def _fresh_bad():
    _bad[0] += 1
    return Token.bad(z3.IntVal(_bad[0]))


def _num_atom(a, width):
    """atom -> z3 Int if it is a canonical number (formatted int of the canonical width, or a literal digit string of that width)"""
    if a[0] == "fmt":
        if a[1].real or a[2] != width:
            return None
        return a[1].v
    s = a[1]
    if s.isdigit() and len(s) >= width and (len(s) == width or s[0] != "0"):
        return z3.IntVal(int(s))
    return None


def _split_atoms(atoms, sep):
    parts, cur = [], []
    for a in atoms:
        if a[0] == "fmt":
            cur.append(a)
            continue
        segs = a[1].split(sep)
        if segs[0]:
            cur.append(("lit", segs[0]))
        for sg in segs[1:]:
            parts.append(cur)
            cur = [("lit", sg)] if sg else []
    parts.append(cur)
    return parts


def str_split(s, sep):
    """str.split on a structured string: separators only occur in literals (STR)"""
    return [StrV(p) for p in _split_atoms(s.atoms, sep)]


def _norm(atoms):
    """split literal atoms so that each part looks like  prefix '_' number"""
    return StrV(atoms).atoms


def tok_of_str(s):
    """StrV -> Token term (bad(k) for anything that is not a canonical token)"""
    c = s.const()
    if c in ("pad", "sta", "sto", "bar"):
        return getattr(Token, c)
    parts = _split_atoms(s.atoms, "-")
    if any(len(p) == 0 for p in parts):
        return _fresh_bad()
    fields = []
    for p in parts:
        sub = _split_atoms(p, "_")
        if len(sub) < 2 or len(sub[0]) != 1 or sub[0][0][0] != "lit":
            return _fresh_bad()
        prefix = sub[0][0][1]
        nums = []
        for x in sub[1:]:
            if len(x) != 1:
                return _fresh_bad()
            nums.append(x[0])
        fields.append((prefix, nums))
    if len(fields) == 1:
        pre, nums = fields[0]
        if pre in ("rst", "trk", "val", "vel") and len(nums) == 1:
            n = _num_atom(nums[0], CANON_W[pre])
            return getattr(Token, pre)(n) if n is not None else _fresh_bad()
        if pre == "tsg" and len(nums) == 2:
            a, b = _num_atom(nums[0], 2), _num_atom(nums[1], 2)
            return Token.tsg(a, b) if a is not None and b is not None else _fresh_bad()
    # note token: [trk] pit [val] [vel] in this order
    order = ["trk", "pit", "val", "vel"]
    seen = [f[0] for f in fields]
    if seen != [x for x in order if x in seen] or "pit" not in seen or any(len(n) != 1 for _, n in fields):
        return _fresh_bad()
    vals = {}
    for pre, nums in fields:
        n = _num_atom(nums[0], CANON_W[pre])
        if n is None:
            return _fresh_bad()
        vals[pre] = n
    zero = z3.IntVal(0)
    return Token.note(z3.BoolVal("trk" in vals), vals.get("trk", zero), vals["pit"], z3.BoolVal("val" in vals), vals.get("val", zero), z3.BoolVal("vel" in vals), vals.get("vel", zero))


def shapes():
    """all canonical shapes a Token can have: (name, guard(tok) -> z3 Bool, builder(tok) -> StrV)"""
    def num(t, w):
        return ("fmt", Num(t), w)
    out = []
    for c in ("pad", "sta", "sto", "bar"):
        out.append((c, (lambda t, c=c: getattr(Token, "is_" + c)(t)), (lambda t, c=c: StrV([("lit", c)]))))
    for pre in ("rst", "trk", "val", "vel"):
        acc = {"rst": Token.rst_v, "trk": Token.trk_t, "val": Token.val_v, "vel": Token.vel_v}[pre]
        out.append((pre, (lambda t, pre=pre: getattr(Token, "is_" + pre)(t)), (lambda t, pre=pre, acc=acc: StrV([("lit", pre + "_"), num(acc(t), CANON_W[pre])]))))
    out.append(("tsg", lambda t: Token.is_tsg(t), lambda t: StrV([("lit", "tsg_"), num(Token.tsg_n(t), 2), ("lit", "_"), num(Token.tsg_d(t), 2)])))
    for ft in (False, True):
        for fv in (False, True):
            for fw in (False, True):
                def guard(t, ft=ft, fv=fv, fw=fw):
                    return z3.And(Token.is_note(t), Token.n_ft(t) == ft, Token.n_fv(t) == fv, Token.n_fw(t) == fw)

                def build(t, ft=ft, fv=fv, fw=fw):
                    atoms = []
                    if ft:
                        atoms += [("lit", "trk_"), num(Token.n_t(t), 2), ("lit", "-")]
                    atoms += [("lit", "pit_"), num(Token.n_p(t), 3)]
                    if fv:
                        atoms += [("lit", "-val_"), num(Token.n_v(t), 2)]
                    if fw:
                        atoms += [("lit", "-vel_"), num(Token.n_w(t), 3)]
                    return StrV(atoms)
                out.append((f"note[{int(ft)}{int(fv)}{int(fw)}]", guard, build))
    out.append(("bad", lambda t: Token.is_bad(t), None))
    return out


# tokens live in heap lists as Ints through an uninterpreted bijection
tok_enc = z3.Function("tok_enc", Token, I)
tok_dec = z3.Function("tok_dec", I, Token)


def enc_axioms():
    t = z3.Const("t!tok", Token)
    k = z3.Int("k!tok")
    return [z3.ForAll([t], tok_dec(tok_enc(t)) == t, patterns=[tok_enc(t)]),
            z3.ForAll([k], tok_enc(tok_dec(k)) == k, patterns=[tok_dec(k)])]


class TokV(Val):
    """a symbolic token (element of a token list)"""

    def __init__(self, term):
        self.term = term

    def __repr__(self):
        return f"Tok({self.term})"
