"""scoda/elements/bar.py : Bar.copy (C16).  Bar.__init__ is an assumed contract (A): its functional content is C10's business and is
decided by the bounded tier; here only what copy relies on: the constructor stores its arguments and touches nothing but the new bar and
the sequence it is given."""
from .registry import contract
from .macros import *

SEQ_OWN_MSGS = "[when(not sequence._abs_stale, sequence._abs._messages), when(not sequence._rel_stale, sequence._rel._messages)]"
SEQ_OWN_VIEWS = "[when(not sequence._abs_stale, sequence._abs), when(not sequence._rel_stale, sequence._rel)]"
contract("Bar.__init__", params={"self": "ref:Bar", "sequence": "ref:Sequence", "numerator": "int", "denominator": "int", "key": "enum:Key?", "default_channel": "int"},
         trusted=True, allocates=True,
         note="frame of the constructor (A): it normalises / pads / re-signs the sequence it is given and writes nothing but the new bar and that sequence; "
              "its functional clauses are verified separately (contract Bar.__init__#c10, weak frame)",
         requires=[PROTO("sequence")],
         raises={"BarException": "True"},
         modifies={"sequence": "[self]", "time_signature_numerator": "[self]", "time_signature_denominator": "[self]", "key_signature": "[self]",
                   "_abs": "[sequence]", "_rel": "[sequence]", "_abs_stale": "[sequence]", "_rel_stale": "[sequence]",
                   "@msgfields": SEQ_OWN_MSGS, "@lists": SEQ_OWN_MSGS, "_messages": SEQ_OWN_VIEWS},
         ensures=[("stores_arguments", "self.sequence == sequence and self.time_signature_numerator == numerator and self.time_signature_denominator == denominator"
                                       " and self.key_signature == key and is_none(self.key_signature) == is_none(key)"),
                  ("proto", PROTO("sequence"))],
         props=["C16"])

SR = "sequence._rel._messages"
TS_ = "MessageType.TIME_SIGNATURE"
# the functional side of the constructor (C10), verified with NO frame claim on messages and lists
contract("Bar.__init__#c10", params={"self": "ref:Bar", "sequence": "ref:Sequence", "numerator": "int", "denominator": "int", "key": "enum:Key?", "default_channel": "int"},
         allocates=True, cases=["sequence._abs_stale", "sequence._rel_stale", "not sequence._abs_stale and not sequence._rel_stale"],
         requires=[PROTO("sequence"), "denominator > 0 and numerator >= 0"],
         raises={"BarException": "True"},
         modifies={"sequence": "[self]", "time_signature_numerator": "[self]", "time_signature_denominator": "[self]", "key_signature": "[self]",
                   "_abs": "[sequence]", "_rel": "[sequence]", "_abs_stale": "[sequence]", "_rel_stale": "[sequence]",
                   "@msgfields": "*", "@lists": "*", "_messages": "*"},
         ensures=[("stores_arguments", "self.sequence == sequence and self.time_signature_numerator == numerator and self.time_signature_denominator == denominator"
                                       " and self.key_signature == key and is_none(self.key_signature) == is_none(key)"),
                  ("proto", PROTO("sequence")),
                  # C10: a bar is only constructed when its capacity is a whole number of ticks (otherwise BarException)
                  ("whole_capacity", "divides(denominator, numerator * PPQN * 4)"),
                  ("relative_view_is_the_fresh_one", "not sequence._rel_stale and sequence._abs_stale"),
                  # ... and its relative view starts with exactly one time signature, the bar's own
                  ("one_signature_first", f"len({SR}) >= 1 and {SR}[0].message_type == {TS_} and {SR}[0].numerator == numerator and {SR}[0].denominator == denominator"
                                          f" and forall(1, len({SR}), lambda j: {SR}[j].message_type != {TS_})"),
                  ],
         props=["C10"])

# the length side of the constructor (C10), a third contract of the same function with no frame claim at all: two assertions inside the body
ALLW = {f: "*" for f in ("sequence", "time_signature_numerator", "time_signature_denominator", "key_signature", "_abs", "_rel", "_abs_stale", "_rel_stale", "_messages", "@msgfields", "@lists")}
contract("Bar.__init__#length", params={"self": "ref:Bar", "sequence": "ref:Sequence", "numerator": "int", "denominator": "int", "key": "enum:Key?", "default_channel": "int"},
         allocates=True, cases=["sequence._abs_stale", "sequence._rel_stale", "not sequence._abs_stale and not sequence._rel_stale"],
         requires=[PROTO("sequence"), "denominator > 0 and numerator >= 0"],
         raises={"BarException": "True"},
         asserts=[("padded_to_capacity", "time_signatures = ", f"not self.sequence._rel_stale and wsum({SR}, len({SR})) == capacity and capacity * denominator == numerator * PPQN * 4"),
                  ("filtering_keeps_the_length", "self.sequence.add_relative_message(", f"not self.sequence._rel_stale and wsum({SR}, len({SR})) == capacity")],
         modifies=dict(ALLW),
         ensures=[("relative_view_is_the_fresh_one", "not sequence._rel_stale and sequence._abs_stale")],
         props=["C10"])

S = "self.sequence"
contract("Bar.copy", params={"self": "ref:Bar"}, result="ref:Bar", allocates=True,
         cases=[f"{S}._abs_stale", f"{S}._rel_stale", f"not {S}._abs_stale and not {S}._rel_stale"],
         requires=[f"not is_none({S})", PROTO(S)],
         raises={"BarException": "True"},
         modifies={},
         ensures=[("fresh_bar", "not is_none(result) and fresh(result) and result != self"),
                  ("own_copied_sequence", f"not is_none(result.sequence) and fresh(result.sequence) and result.sequence != {S}"),
                  ("same_signature", "result.time_signature_numerator == self.time_signature_numerator and result.time_signature_denominator == self.time_signature_denominator"
                                     " and result.key_signature == self.key_signature and is_none(result.key_signature) == is_none(self.key_signature)"),
                  ("source_untouched", f"{S} == old({S}) and {S}._abs == old({S}._abs) and {S}._rel == old({S}._rel) and {S}._abs_stale == old({S}._abs_stale) and {S}._rel_stale == old({S}._rel_stale)"),
                  ("source_proto", PROTO(S))],
         props=["C16"])

# ---------------------------------------------------------------- Track.copy / Composition.copy (C16)
contract("Track.__init__", params={"self": "ref:Track", "bars": "list:ref:Bar", "name": "int?"}, trusted=True, allocates=True,
         note="the constructor stores its arguments (the instrument look-up over the bars' messages reads only)",
         requires=[], raises={"TrackException": "True"},
         modifies={"name": "[self]", "bars": "[self]", "program": "[self]"},
         ensures=[("stores_arguments", "self.bars == bars and self.name == name and is_none(self.name) == is_none(name)")],
         props=["C16"])
BARS_OK = lambda L: f"forall(0, len({L}), lambda q: not is_none({L}[q]) and not is_none({L}[q].sequence) and {PROTO(L + '[q].sequence')})"
FRESH_BARS = lambda new, old: (f"len({new}) == len({old}) and forall(0, len({old}), lambda q: not is_none({new}[q]) and fresh({new}[q]) and allocated({new}[q]) and fresh({new}[q].sequence) and allocated({new}[q].sequence)"
                               f" and {new}[q].time_signature_numerator == {old}[q].time_signature_numerator and {new}[q].time_signature_denominator == {old}[q].time_signature_denominator)")
contract("Track.copy", params={"self": "ref:Track"}, result="ref:Track", allocates=True,
         requires=[BARS_OK("self.bars")],
         raises={"BarException": "True", "TrackException": "True"},
         modifies={},
         ensures=[("fresh_track", "not is_none(result) and fresh(result) and allocated(result) and result != self and fresh(result.bars) and allocated(result.bars) and result.bars != self.bars"),
                  ("bars_copied", FRESH_BARS("result.bars", "self.bars")),
                  ("source_bars_kept", "self.bars == old(self.bars) and len(self.bars) == old(len(self.bars)) and forall(0, len(self.bars), lambda q: self.bars[q] == old(self.bars[q]) and self.bars[q].sequence == old(self.bars[q].sequence))")],
         loops={"L0": dict(fingerprint="for bar in self.bars", inv=[
             ("built", "fresh(_comp0) and _comp0 != self.bars and " + FRESH_BARS("_comp0", "self.bars").replace("len(_comp0) == len(self.bars)", "len(_comp0) == i").replace("forall(0, len(self.bars)", "forall(0, i")),
             ("source_ok", BARS_OK("self.bars"))])},
         props=["C16"])

contract("Composition.__init__", params={"self": "ref:Composition", "tracks": "list:ref:Track"}, allocates=True,
         requires=[], modifies={"tracks": "[self]"},
         ensures=[("stores_argument", "self.tracks == tracks")], props=["C16"])
TRACKS_OK = lambda L: f"forall(0, len({L}), lambda t: not is_none({L}[t]) and {BARS_OK(L + '[t].bars')})"
FRESH_TRACKS = lambda new, old, hi: (f"forall(0, {hi}, lambda t: not is_none({new}[t]) and fresh({new}[t]) and allocated({new}[t]) and fresh({new}[t].bars) and allocated({new}[t].bars)"
                                     f" and {new}[t].bars != {new} and len({new}[t].bars) == len({old}[t].bars)"
                                     f" and forall(0, len({new}[t].bars), lambda q: not is_none({new}[t].bars[q]) and fresh({new}[t].bars[q]) and allocated({new}[t].bars[q]) and fresh({new}[t].bars[q].sequence)))")
contract("Composition.copy", params={"self": "ref:Composition"}, result="ref:Composition", allocates=True,
         requires=[TRACKS_OK("self.tracks")],
         raises={"BarException": "True", "TrackException": "True"},
         modifies={},
         ensures=[("fresh_composition", "not is_none(result) and fresh(result) and result != self and fresh(result.tracks) and result.tracks != self.tracks"),
                  ("tracks_copied", "len(result.tracks) == len(self.tracks) and " + FRESH_TRACKS("result.tracks", "self.tracks", "len(self.tracks)")),
                  ("source_kept", "self.tracks == old(self.tracks) and len(self.tracks) == old(len(self.tracks)) and forall(0, len(self.tracks), lambda t: self.tracks[t] == old(self.tracks[t]) and self.tracks[t].bars == old(self.tracks[t].bars))")],
         loops={"L0": dict(fingerprint="for track in self.tracks", inv=[
             ("built", "fresh(_comp0) and allocated(_comp0) and _comp0 != self.tracks and len(_comp0) == i and " + FRESH_TRACKS("_comp0", "self.tracks", "i")),
             ("source_ok", TRACKS_OK("self.tracks"))])},
         props=["C16"])
