"""Executable (CPython) definitions of the spec functions used in contracts -- for replay and the bounded tier.
No z3 here; runs under /venv/bin/python with the real scoda modules imported."""
SPEC = {}


def spec(f):
    SPEC[f.__name__] = f
    return f


def _mt():
    from scoda.misc import music_theory as M
    return M


@spec
def tonic(ev, k):
    return _mt().MusicMapping.KeyNoteMapping[k][0][0].value


@spec
def in_scale(ev, k, pc):
    return pc in [n.value for n in _mt().MusicMapping.KeyNoteMapping[k][0]]


@spec
def cofpos(ev, pc):
    M = _mt()
    return M.CircleOfFifths.circle_of_fifths_order.index(M.Note(pc)) - 5


@spec
def wsum(ev, L, k, kind="wait"):
    from scoda.enumerations.message_type import MessageType
    if kind == "time":
        return sum(m.time for m in L[:k] if getattr(m, "time", None) is not None)
    if kind == "mtime":
        return sum(m.time for m in L[:k])
    return sum(m.time for m in L[:k] if m.message_type == MessageType.WAIT)


@spec
def wsum_mono(ev, L):
    return True


@spec
def divides(ev, a, b):
    return b % a == 0


@spec
def distinct(ev, L):
    return len({id(x) for x in L}) == len(L)


@spec
def sorted_by_time(ev, L):
    return all(L[k].time <= L[k + 1].time for k in range(len(L) - 1))


class _Pairing:
    def __init__(self, t):
        self.g_channel, self.g_msgs = t[0], t[1]


@spec
def callres(ev, name, k):
    import sys
    rec = sys.modules["pyvc.concrete"].RECORDED.get(name, [])
    v = rec[k]
    if isinstance(v, list) and all(isinstance(x, tuple) and len(x) == 2 for x in v):
        return [_Pairing(x) for x in v]
    return v


@spec
def abs_equals_result(ev, a, b, ic, its, iks, iv):
    return a.equals(b, ic, its, iks, iv)
