"""C20 (and C14.b, C19 circle-of-fifths clause): scoda/misc/music_theory.py"""
import z3
from .registry import contract, lemma, specfun
from pyvc.values import *


def _table_fn(ctx, name, fn):
    """ite-chain over the 15 keys built from the real KeyNoteMapping table"""
    tab = ctx.tables["MusicMapping.KeyNoteMapping"]
    return [(k, fn(v)) for k, v in tab.pairs]


@specfun
def tonic(X, st, e):
    """pitch class of the first scale note of a key (real table MusicMapping.KeyNoteMapping)"""
    k = X.ev(e.args[0], st)
    pairs = _table_fn(X.ctx, "tonic", lambda v: X.ctx.enum_values["Note"][z3.simplify(v.items[0].items[0].v).as_long()])
    r = z3.IntVal(pairs[-1][1])
    for kk, val in reversed(pairs[:-1]):
        r = z3.If(k.v == kk.v, val, r)
    return Num(r)


@specfun
def in_scale(X, st, e):
    """pitch class pc belongs to the note set of key k (real table)"""
    k = X.ev(e.args[0], st)
    pc = X.ev(e.args[1], st)
    r = FALSE
    for kk, v in X.ctx.tables["MusicMapping.KeyNoteMapping"].pairs:
        notes = [X.ctx.enum_values["Note"][z3.simplify(n.v).as_long()] for n in v.items[0].items]
        r = z3.If(k.v == kk.v, z3.Or([pc.v == n for n in notes]), r)
    return BoolV(r)


@specfun
def cofpos(X, st, e):
    """position of a pitch class on the circle of fifths: index in the real order list minus 5"""
    pc = X.ev(e.args[0], st)
    order = X.ctx.tables["CircleOfFifths.circle_of_fifths_order"].items
    vals = [X.ctx.enum_values["Note"][z3.simplify(n.v).as_long()] for n in order]
    r = z3.IntVal(len(vals) - 1 - 5)
    for i in range(len(vals) - 2, -1, -1):
        r = z3.If(pc.v == vals[i], i - 5, r)
    return Num(r)


contract("Key.transpose_key", params={"key": "enum:Key?", "transpose_by": "int"}, result="enum:Key?", pure=True,
         requires=["not is_none(key)"],
         ensures=[("not_none", "not is_none(result)"),
                  ("tonic", "tonic(result) == (tonic(key) + transpose_by) % 12"),
                  ("scale", "forall(0, 12, lambda pc: in_scale(result, (pc + transpose_by) % 12) == in_scale(key, pc))")],
         props=["C20", "C14"])

contract("CircleOfFifths.get_position", params={"note_val": "int"}, result="int", pure=True,
         ensures=[("range", "-5 <= result and result <= 6"),
                  ("is_position", "result == cofpos(note_val % 12)")],
         props=["C20", "C19"])

contract("CircleOfFifths.get_distance", params={"from_note_val": "int", "to_note_val": "int"}, result="int", pure=True,
         ensures=[("range", "-5 <= result and result <= 6"),
                  ("congruent", "(result - (cofpos(to_note_val % 12) - cofpos(from_note_val % 12))) % 12 == 0")],
         props=["C20"])

contract("CircleOfFifths.from_distance", params={"base_note_val": "int", "cof_distance": "int"}, result="int", pure=True,
         ensures=[("pitch_class", "0 <= result and result < 12"),
                  ("position", "(cofpos(result) - cofpos(base_note_val % 12) - cof_distance) % 12 == 0")],
         props=["C20"])


# ------------------------------------------------------------------ lemmas over the contracts (L) and closed facts (F)
def _spec_terms(ctx):
    from pyvc.engine import Exec, State, mk_heap
    X = Exec(ctx, "lemma")
    st = State({}, mk_heap(ctx), [], {})
    return X, st


@lemma("C20.roundtrip", ["C20"])
def roundtrip(ctx):
    """from_distance(a, get_distance(a, b)) is b's pitch class -- from the two postconditions only"""
    X, st = _spec_terms(ctx)
    a, b, d, r = z3.Ints("a b d r")
    st.env.update(a=Num(a), b=Num(b), d=Num(d), r=Num(r))
    ev = lambda s: X.truth(X.spec_ev(s, st), st)
    hyp = [ev("-5 <= d and d <= 6"), ev("(d - (cofpos(b % 12) - cofpos(a % 12))) % 12 == 0"),
           ev("0 <= r and r < 12"), ev("(cofpos(r) - cofpos(a % 12) - d) % 12 == 0")]
    return [("lands_on_b", hyp, ev("r == b % 12"), "get_distance.post and from_distance.post imply from_distance(a, get_distance(a, b)) == b % 12")]


@lemma("C20.additive", ["C20"])
def additive(ctx):
    """transpositions compose additively; a multiple of 12 is the identity up to enharmonic spelling (same tonic, same scale)"""
    X, st = _spec_terms(ctx)
    k0, k1, k2, k3, s, t = z3.Ints("k0 k1 k2 k3 s t")
    nk = len(ctx.enums["Key"])
    for n, v in (("k0", k0), ("k1", k1), ("k2", k2), ("k3", k3)):
        st.env[n] = EnumV(v, "Key")
    st.env.update(s=Num(s), t=Num(t))
    ev = lambda x: X.truth(X.spec_ev(x, st), st)
    rng = [z3.And(0 <= v, v < nk) for v in (k0, k1, k2, k3)]
    post = lambda a, by, r: [ev(f"tonic({r}) == (tonic({a}) + {by}) % 12"), ev(f"forall(0, 12, lambda pc: in_scale({r}, (pc + {by}) % 12) == in_scale({a}, pc))")]
    hyp = rng + post("k0", "s", "k1") + post("k1", "t", "k2") + post("k0", "s + t", "k3")
    return [("compose_tonic", hyp, ev("tonic(k2) == tonic(k3)"), "transpose(transpose(k, s), t) and transpose(k, s + t) have the same tonic"),
            ("compose_scale", hyp, ev("forall(0, 12, lambda pc: in_scale(k2, pc) == in_scale(k3, pc))"), "... and the same scale"),
            ("mult12_identity", rng + post("k0", "12 * s", "k1"), ev("tonic(k1) == tonic(k0) and forall(0, 12, lambda pc: in_scale(k1, pc) == in_scale(k0, pc))"),
             "a multiple of 12 is the identity up to enharmonic spelling")]


@lemma("C20.tables", ["C20"])
def tables(ctx):
    """closed facts (F) about the real tables: every key's note set is the major scale on its tonic;
    accidentals agree with the circle position; cof order is a permutation of the 12 pitch classes"""
    out = []
    major = [0, 2, 4, 5, 7, 9, 11]
    nv = ctx.enum_values["Note"]
    for k, v in ctx.tables["MusicMapping.KeyNoteMapping"].pairs:
        name = ctx.enums["Key"][z3.simplify(k.v).as_long()]
        notes = [nv[z3.simplify(n.v).as_long()] for n in v.items[0].items]
        acc = z3.simplify(v.items[1].v).as_long()
        ton = notes[0]
        ok = sorted((n - ton) % 12 for n in notes) == major and len(notes) == 7
        out.append((f"major_scale[{name}]", [], z3.BoolVal(ok), f"notes of {name} = {notes} form the major scale on {ton}"))
        # accidentals: number of scale notes that are black keys differs per spelling; consistency = position on the circle
        sharps = (ton * 7) % 12          # number of sharps of the major key on tonic `ton`
        ok2 = acc in (sharps, 12 - sharps)
        out.append((f"accidentals[{name}]", [], z3.BoolVal(ok2), f"{name}: {acc} accidentals; circle position gives {sharps} sharps / {12 - sharps} flats"))
    order = [nv[z3.simplify(n.v).as_long()] for n in ctx.tables["CircleOfFifths.circle_of_fifths_order"].items]
    out.append(("cof_is_permutation", [], z3.BoolVal(sorted(order) == list(range(12))), f"circle order {order}"))
    out.append(("cof_steps_are_fifths", [], z3.BoolVal(all((order[(i + 1) % 12] - order[i]) % 12 == 7 for i in range(12))), "consecutive entries are a fifth apart"))
    tro = [z3.simplify(k.v).as_long() for k in ctx.tables["MusicMapping.key_transpose_order"].items]
    out.append(("transpose_order_len", [], z3.BoolVal(len(tro) == 12), "key_transpose_order has 12 entries"))
    return out


@lemma("C12.key_names", ["C12", "C13"])
def key_names(ctx):
    """closed facts (F): the key name written to a file maps back to the same key -- KeyKeyMapping[k.value] == k for all 15 keys;
    minor key names map to a key of the table"""
    out = []
    names = ctx.enums["Key"]
    vals = ctx.enum_values["Key"]
    tab = {k.const(): z3.simplify(v.v).as_long() for k, v in ctx.tables["MusicMapping.KeyKeyMapping"].pairs}
    for i, (n, v) in enumerate(zip(names, vals)):
        out.append((f"roundtrip[{n}]", [], z3.BoolVal(tab.get(v) == i), f"KeyKeyMapping[{v!r}] is Key.{n}"))
    return out
