"""scoda/sequences/absolute_sequence.py and the conversions (C04, C16, C15, C11)"""
from .registry import contract
from .macros import *

Mj = M + "[j]"
F9 = ("message_type", "channel", "note", "velocity", "control", "program", "numerator", "denominator", "key")
SAME9 = lambda a, b: " and ".join(f"{a}.{f} == {b}.{f}" for f in F9)
R = "result._messages"
RS = "relative_sequence._messages"

FRESH_LIST = lambda L: f"forall(0, len({L}), lambda j: fresh({L}[j]))"

# ---------------------------------------------------------------- AbsoluteSequence.to_relative_sequence
F8 = ("message_type", "note", "velocity", "control", "program", "numerator", "denominator", "key")        # (copy fills in a missing channel)
SAME8 = lambda a, b: " and ".join(f"{a}.{f} == {b}.{f}" for f in F8)
# every event of the absolute list (end markers excepted) is in the relative list, after waits that add up to its tick (nothing is lost on conversion)
EVENTS_KEPT_REL = lambda out, hi: (f"forall(0, {hi}, lambda j: implies({M}[j].message_type != MessageType.INTERNAL,"
                                   f" exists(0, len({out}), lambda p: {SAME8(out + '[p]', M + '[j]')} and wsum({out}, p) == {M}[j].time)))")
contract("AbsoluteSequence.to_relative_sequence", params={"self": "ref:AbsoluteSequence"}, result="ref:RelativeSequence", allocates=True,
         requires=[WF_ABS()],
         modifies={"@lists": M},          # the canonical sort re-orders the sequence's own list
         ensures=[
             ("fresh_result", f"not is_none(result) and fresh(result) and fresh({R}) and {FRESH_LIST(R)}"),
             ("wf_rel", WF_REL(R)),
             ("waits_positive", f"forall(0, len({R}), lambda j: implies({IS(R + '[j]', 'WAIT')}, {R}[j].time > 0))"),
             ("events_untimed", f"forall(0, len({R}), lambda j: implies(not {IS(R + '[j]', 'WAIT')}, is_none({R}[j].time) and not {IS(R + '[j]', 'INTERNAL')}))"),
             ("source_kept", f"len({M}) == old(len({M})) and {WF_ABS()}"),
             ("duration", f"wsum({R}, len({R})) == ite(len({M}) > 0, {M}[len({M}) - 1].time, 0)"),
             ("no_event_lost", EVENTS_KEPT_REL(R, f"len({M})")),
         ],
         loops={"L0": dict(fingerprint="for msg in self._messages", inv=[
             ("events_kept", EVENTS_KEPT_REL(RS, "i")),
             ("out_fresh", f"fresh(relative_sequence) and fresh({RS}) and {RS} != {M} and {FRESH_LIST(RS)}"),
             ("out_wf", WF_REL(RS)),
             ("out_waits_positive", f"forall(0, len({RS}), lambda j: implies({IS(RS + '[j]', 'WAIT')}, {RS}[j].time > 0))"),
             ("out_events_untimed", f"forall(0, len({RS}), lambda j: implies(not {IS(RS + '[j]', 'WAIT')}, is_none({RS}[j].time) and not {IS(RS + '[j]', 'INTERNAL')}))"),
             ("duration_so_far", f"wsum({RS}, len({RS})) == current_point_in_time"),
             ("clock", f"current_point_in_time >= 0 and implies(i > 0, current_point_in_time == {M}[i - 1].time) and implies(i == 0, current_point_in_time == 0)"),
             ("source_kept", f"len({M}) == entry(len({M})) and {SORTED()} and {WF_ABS()} and forall(0, len({M}), lambda j: allocated({Mj}) and not fresh({Mj}))"),
         ])},
         props=["C04", "C16", "C11"])

# ---------------------------------------------------------------- equals (C17)
P0, P1 = "callres('get_interleaved_message_pairings', 0)", "callres('get_interleaved_message_pairings', 1)"
FIRSTk = "result[k].g_msgs[0]"
contract("AbsoluteSequence.get_interleaved_message_pairings",
         params={"self": "ref:AbsoluteSequence", "message_types": "list:int?", "standard_length": "int", "impute_notes": "bool"}, result="list:ref:Pairing", allocates="keep_fields", trusted=True,
         note="the canonical content extraction used by equals (C17.d): pairings of notes and the requested signature events in onset order; validated by the bounded tier",
         requires=[], modifies={"@lists": M},
         ensures=[("pairings", f"forall(0, len(result), lambda k: not is_none(result[k]) and len(result[k].g_msgs) >= 1 and not is_none({FIRSTk}.message_type) and not is_none({FIRSTk}.time)"
                               f" and implies({FIRSTk}.message_type == MessageType.NOTE_ON, len(result[k].g_msgs) == 2 and not is_none(result[k].g_msgs[1].time)))")],
         props=["C17"])


def AGREE(k):
    a, b = f"{P0}[{k}]", f"{P1}[{k}]"
    fa, fb = f"{a}.g_msgs[0]", f"{b}.g_msgs[0]"
    return (f"(({a}.g_channel == {b}.g_channel) or ignore_channel) and {fa}.message_type == {fb}.message_type and {fa}.time == {fb}.time"
            f" and implies({fa}.message_type == MessageType.NOTE_ON, {fa}.note == {fb}.note and {a}.g_msgs[1].time - {fa}.time == {b}.g_msgs[1].time - {fb}.time and ({fa}.velocity == {fb}.velocity or ignore_velocity))"
            f" and implies({fa}.message_type == MessageType.TIME_SIGNATURE, {fa}.numerator == {fb}.numerator and {fa}.denominator == {fb}.denominator)"
            f" and implies({fa}.message_type == MessageType.KEY_SIGNATURE, {fa}.key == {fb}.key)")


contract("AbsoluteSequence.equals",
         params={"self": "ref:AbsoluteSequence", "other": "ref:AbsoluteSequence?", "ignore_channel": "bool", "ignore_time_signature": "bool", "ignore_key_signature": "bool", "ignore_velocity": "bool"},
         result="bool", allocates=True,
         requires=[],
         names_result=["implies(not is_none(other), result == abs_equals_result(self, other, ignore_channel, ignore_time_signature, ignore_key_signature, ignore_velocity))"],
         modifies={"@lists": "[self._messages, other._messages]"},
         ensures=[("not_a_sequence", "implies(is_none(other), not result)"),
                  ("iff_pairings_agree", f"implies(not is_none(other), result == (len({P0}) == len({P1}) and forall(0, len({P0}), lambda k: {AGREE('k')})))")],
         loops={"L0": dict(fingerprint="for (self_pair, other_pair) in zip(self_pairings, other_pairings)", inv=[
             ("agree_so_far", f"forall(0, i, lambda k: {AGREE('k')})"), ("same_length", f"len({P0}) == len({P1})")])},
         props=["C17"])

# ---------------------------------------------------------------- merge, event level (C15): the merged list is exactly the inputs' events
# A second contract of the same function (suffix #events): callers keep using the protocol-level contract in sequence.py.
SQ = "sequences[k]._messages"
TIMED = lambda L: f"forall(0, len({L}), lambda w: not is_none({L}[w].time))"
OWN_KEPT = f"len({M}) >= old(len({M})) and forall(0, old(len({M})), lambda j: {M}[j] == old({M}[j]))"
OSQ = "old(sequences[k]._messages[j])"       # the inputs are read in the entry state (they are not written: frame)
OLEN = "old(len(sequences[k]._messages))"
INCLUDED = lambda hi: f"forall(0, {hi}, lambda k: forall(0, {OLEN}, lambda j: exists(0, len({M}), lambda p: {M}[p] == {OSQ})))"
FROM_INPUTS = lambda hi: (f"forall(old(len({M})), len({M}), lambda p: exists(0, {hi}, lambda k: exists(0, {OLEN}, lambda j: {M}[p] == {OSQ})))")
contract("AbsoluteSequence.merge#events", params={"self": "ref:AbsoluteSequence", "sequences": "list:ref:AbsoluteSequence"}, allocates=True,
         requires=[TIMED(M), f"forall(0, len(sequences), lambda k: not is_none(sequences[k]) and {SQ} != {M} and {TIMED(SQ)})",
                   f"sequences != {M} and forall(0, len(sequences), lambda k: sequences != {SQ})"],      # (typing: a list of sequences is not a list of messages)
         modifies={"@lists": M},
         ensures=[("every_input_event_present", INCLUDED("len(sequences)")),
                  ("own_events_kept", f"forall(0, old(len({M})), lambda j: exists(0, len({M}), lambda p: {M}[p] == old({M}[j])))"),
                  ("nothing_invented", f"forall(0, len({M}), lambda p: exists(0, old(len({M})), lambda j: {M}[p] == old({M}[j]))"
                                       f" or exists(0, len(sequences), lambda k: exists(0, {OLEN}, lambda j: {M}[p] == {OSQ})))"),
                  ("ordered_by_time", f"sorted_by_time({M})")],
         loops={
             "L0": dict(fingerprint="for sequence in sequences", inv=[("own_kept", OWN_KEPT), ("included", INCLUDED("i")), ("from_inputs", FROM_INPUTS("i")), ("timed", TIMED(M))]),
             "L1": dict(fingerprint="for msg in [msg for msg in sequence._messages]", inv=[
                 ("own_kept", OWN_KEPT), ("included", INCLUDED("loop_index('L0')")), ("timed", TIMED(M)),
                 ("appended", f"len({M}) == entry(len({M})) + i and forall(entry(len({M})), len({M}), lambda p: {M}[p] == old(sequences[loop_index('L0')]._messages[p - entry(len({M}))]))"),
                 ("appended_fwd", f"forall(0, i, lambda t: {M}[entry(len({M})) + t] == old(sequences[loop_index('L0')]._messages[t]))"),
                 ("from_inputs", f"forall(old(len({M})), entry(len({M})), lambda p: exists(0, loop_index('L0'), lambda k: exists(0, {OLEN}, lambda j: {M}[p] == {OSQ})))")]),
         },
         props=["C15"])
