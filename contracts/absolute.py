"""scoda/sequences/absolute_sequence.py and the conversions (C04, C16, C15, C11)"""
from .registry import contract
from .macros import *

Mj = M + "[j]"
F9 = ("message_type", "channel", "note", "velocity", "control", "program", "numerator", "denominator", "key")
SAME9 = lambda a, b: " and ".join(f"{a}.{f} == {b}.{f}" for f in F9)
R = "result._messages"
RS = "relative_sequence._messages"

FRESH_LIST = lambda L: f"forall(0, len({L}), lambda j: fresh({L}[j]))"

# ---------------------------------------------------------------- AbsoluteSequence.to_relative_sequence
contract("AbsoluteSequence.to_relative_sequence", params={"self": "ref:AbsoluteSequence"}, result="ref:RelativeSequence", allocates=True,
         requires=[WF_ABS()],
         modifies={"@lists": M},          # the canonical sort re-orders the sequence's own list
         ensures=[
             ("fresh_result", f"not is_none(result) and fresh(result) and fresh({R}) and {FRESH_LIST(R)}"),
             ("wf_rel", WF_REL(R)),
             ("waits_positive", f"forall(0, len({R}), lambda j: implies({IS(R + '[j]', 'WAIT')}, {R}[j].time > 0))"),
             ("events_untimed", f"forall(0, len({R}), lambda j: implies(not {IS(R + '[j]', 'WAIT')}, is_none({R}[j].time) and not {IS(R + '[j]', 'INTERNAL')}))"),
             ("source_kept", f"len({M}) == old(len({M})) and {WF_ABS()}"),
             ("duration", f"wsum({R}, len({R})) == ite(len({M}) > 0, {M}[len({M}) - 1].time, 0)"),
         ],
         loops={"L0": dict(fingerprint="for msg in self._messages", inv=[
             ("out_fresh", f"fresh(relative_sequence) and fresh({RS}) and {RS} != {M} and {FRESH_LIST(RS)}"),
             ("out_wf", WF_REL(RS)),
             ("out_waits_positive", f"forall(0, len({RS}), lambda j: implies({IS(RS + '[j]', 'WAIT')}, {RS}[j].time > 0))"),
             ("out_events_untimed", f"forall(0, len({RS}), lambda j: implies(not {IS(RS + '[j]', 'WAIT')}, is_none({RS}[j].time) and not {IS(RS + '[j]', 'INTERNAL')}))"),
             ("duration_so_far", f"wsum({RS}, len({RS})) == current_point_in_time"),
             ("clock", f"current_point_in_time >= 0 and implies(i > 0, current_point_in_time == {M}[i - 1].time) and implies(i == 0, current_point_in_time == 0)"),
             ("source_kept", f"len({M}) == entry(len({M})) and {SORTED()} and {WF_ABS()} and forall(0, len({M}), lambda j: allocated({Mj}) and not fresh({Mj}))"),
         ])},
         props=["C04", "C16", "C11"])
