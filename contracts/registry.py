"""Sidecar contract registry.  Contracts are keyed by qualified name; loops by pre-order ordinal + fingerprint."""
import os, sys
sys.path.insert(0, os.path.dirname(os.path.dirname(os.path.abspath(__file__))))
from pyvc.engine import Contract

CONTRACTS = {}
LEMMAS = {}      # name -> (props, fn(ctx) -> [(name, assumptions, goal, text)])
SPECFUNS = {}
BOUNDED = {}     # property id -> [callable]


def contract(qual, **kw):
    c = Contract(qual, **kw)
    CONTRACTS[qual] = c
    return c


def lemma(name, props):
    def deco(f):
        LEMMAS[name] = (list(props), f)
        return f
    return deco


def specfun(f):
    SPECFUNS[f.__name__] = f
    return f
