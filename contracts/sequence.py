"""scoda/sequences/sequence.py : the Sequence wrapper (C04 protocol invariant, C16 ownership, C14/C18 wrappers)."""
from .registry import contract
from .macros import *

A = "self._abs._messages"
RL = "self._rel._messages"
FRESH_LIST = lambda L: f"forall(0, len({L}), lambda j: fresh({L}[j]))"
# Wrapper level: no frame claim on message fields / lists (the writes happen inside the inner operations, whose own contracts
# carry the frames); the four wrapper fields of *other* Sequence objects are framed.
OWN_MSGS = "[when(not self._abs_stale, self._abs._messages), when(not self._rel_stale, self._rel._messages)]"
OWN_VIEWS = "[when(not self._abs_stale, self._abs), when(not self._rel_stale, self._rel)]"
# a wrapper writes only: its own four fields, the message lists of its own stored views, and messages held by those lists
WRAP_MOD = dict(SELF_FIELDS, **{"@msgfields": OWN_MSGS, "@lists": OWN_MSGS, "_messages": OWN_VIEWS})
# composites of several wrapper calls: no frame claim on message fields / lists (each inner call carries its own frame)
WRAP_MOD_WEAK = dict(SELF_FIELDS, **{"@msgfields": "*", "@lists": "*", "_messages": "*"})
CASES = ["self._abs_stale", "self._rel_stale", "not self._abs_stale and not self._rel_stale"]

# ------------------------------------------------------------------ protocol-level contracts of the heavy inner operations (A)
NOTE_A = "wf-preservation and frame of this operation are assumed at the wrapper level (validated by the bounded tier); its functional clauses are decided elsewhere"
for name, params in (("quantise", {"step_sizes": "list:int?"}), ("quantise_note_lengths", {"note_values": "list:int?", "standard_length": "int", "do_not_extend": "bool"}),
                     ("cutoff", {"maximum_length": "int", "reduced_length": "int"})):
    contract(f"AbsoluteSequence.{name}", params=dict({"self": "ref:AbsoluteSequence"}, **params), allocates=True, trusted=True, note=NOTE_A,
             requires=[WF_ABS()], modifies={"@lists": M, "time": M}, ensures=[("wf", WF_ABS())], props=["C04", "C16"])
contract("AbsoluteSequence.merge", params={"self": "ref:AbsoluteSequence", "sequences": "list:ref:AbsoluteSequence"}, trusted=True, note=NOTE_A, allocates=True,
         requires=[WF_ABS()], modifies={"@lists": M}, ensures=[("wf", WF_ABS())], props=["C04"])
# RelativeSequence.normalise_relative: verified contract in contracts/relative.py (no longer assumed)
contract("RelativeSequence.concatenate", params={"self": "ref:RelativeSequence", "sequences": "list:ref:RelativeSequence"}, trusted=True, allocates=True,
         note=NOTE_A + "; NB the real code shares the other sequences' message objects (known finding D8)",
         requires=[WF_REL()], modifies={"@lists": M}, ensures=[("wf", WF_REL())], props=["C04"])

# ------------------------------------------------------------------ constructor
contract("Sequence.__init__", params={"self": "ref:Sequence", "absolute_sequence": "ref:AbsoluteSequence?", "relative_sequence": "ref:RelativeSequence?"},
         requires=[f"implies(not is_none(absolute_sequence), {WF_ABS('absolute_sequence._messages')})",
                   f"implies(not is_none(relative_sequence), {WF_REL('relative_sequence._messages')})",
                   "implies(not is_none(absolute_sequence) and not is_none(relative_sequence), absolute_sequence._messages != relative_sequence._messages"
                   " and forall(0, len(absolute_sequence._messages), lambda pa: forall(0, len(relative_sequence._messages), lambda pb: absolute_sequence._messages[pa] != relative_sequence._messages[pb])))"],
         modifies=dict(SELF_FIELDS), allocates=True,
         ensures=[("proto", PROTO()),
                  ("views", "implies(not is_none(absolute_sequence), self._abs == absolute_sequence and not self._abs_stale) and implies(not is_none(relative_sequence), self._rel == relative_sequence and not self._rel_stale)"),
                  ("stale_when_absent", "implies(is_none(absolute_sequence) and not is_none(relative_sequence), self._abs_stale) and implies(is_none(relative_sequence), self._rel_stale)"),
                  ("empty", f"implies(is_none(absolute_sequence) and is_none(relative_sequence), not self._abs_stale and fresh(self._abs) and len({A}) == 0)")],
         props=["C04", "C16"])

# ------------------------------------------------------------------ the two accessors and refresh
def accessor(view, other, wf, inner):
    V = f"self._{view}._messages"
    return dict(
        params={"self": "ref:Sequence"}, result=f"ref:{inner}", allocates=True,
        requires=[PROTO()],
        # only the conversion absolute -> relative re-orders its source list (stable time sort); relative -> absolute touches nothing
        modifies=dict({f"_{view}": "self", f"_{view}_stale": "self"}, **({"@lists": f"when(self._{view}_stale, self._{other}._messages)"} if view == "rel" else {})),
        ensures=[("returns_view", f"not is_none(result) and result == self._{view} and not self._{view}_stale"),
                 ("other_untouched", f"self._{other}_stale == old(self._{other}_stale) and self._{other} == old(self._{other})"),
                 ("kept_when_fresh", f"implies(not old(self._{view}_stale), self._{view} == old(self._{view}))"),
                 ("converted_when_stale", f"implies(old(self._{view}_stale), fresh(result) and fresh({V}) and {FRESH_LIST(V)})"),
                 ("wf_view", wf(V)),
                 ("proto", PROTO())],
        props=["C04", "C16"])


contract("Sequence.abs", **accessor("abs", "rel", WF_ABS, "AbsoluteSequence"))
contract("Sequence.rel", **accessor("rel", "abs", WF_REL, "RelativeSequence"))
contract("Sequence.refresh", params={"self": "ref:Sequence"}, allocates=True, requires=[PROTO()],
         modifies=dict(SELF_FIELDS, **{"@lists": "[when(self._rel_stale, self._abs._messages), when(self._abs_stale, self._rel._messages)]"}),
         ensures=[("both_fresh", "not self._abs_stale and not self._rel_stale"), ("proto", PROTO())], props=["C04"])


# ------------------------------------------------------------------ mutators through the relative view
def rel_mutator(name, params, extra_requires=(), extra_ensures=(), props=(), result=None, weak=False, modifies=None):
    contract(f"Sequence.{name}", params=dict({"self": "ref:Sequence"}, **params), allocates=True, result=result, cases=CASES,
             requires=[PROTO()] + list(extra_requires), modifies=dict(modifies if modifies is not None else (WRAP_MOD_WEAK if weak else WRAP_MOD)),
             ensures=[("rel_fresh_abs_stale", "not self._rel_stale and self._abs_stale"), ("proto", PROTO())] + list(extra_ensures),
             props=["C04", "C16"] + list(props))


def abs_mutator(name, params, extra_requires=(), extra_ensures=(), props=()):
    contract(f"Sequence.{name}", params=dict({"self": "ref:Sequence"}, **params), allocates=True, cases=CASES,
             requires=[PROTO()] + list(extra_requires), modifies=dict(WRAP_MOD),
             ensures=[("abs_fresh_rel_stale", "not self._abs_stale and self._rel_stale"), ("proto", PROTO())] + list(extra_ensures),
             props=["C04", "C16"] + list(props))


RLj = RL + "[j]"
rel_mutator("pad", {"padding_length": "int"}, props=["C18", "C11"],
            extra_ensures=[("delegates", f"implies(not old(self._rel_stale), self._rel == old(self._rel))"),
                           ("duration_is_max_when_fresh", f"implies(not old(self._rel_stale), wsum({RL}, len({RL})) == max(old(wsum({RL}, len({RL}))), padding_length))")])
rel_mutator("set_channel", {"channel": "int"}, props=["C18"],
            extra_ensures=[("all_set", f"forall(0, len({RL}), lambda j: {RLj}.channel == channel)")])
rel_mutator("normalise", {})
rel_mutator("scale", {"factor": "int", "meta_sequence": "ref:Sequence?", "quantise_afterwards": "bool"}, extra_requires=["factor >= 1"], props=["C18"], weak=True)
rel_mutator("add_relative_message", {"msg": "ref:Message", "index": "int?"}, props=["C10"],
            # (no message field is written: only the wrapper's own fields and the lists of its stored views)
            modifies=dict(SELF_FIELDS, **{"@lists": OWN_MSGS, "_messages": OWN_VIEWS}),
            extra_ensures=[("inserted_when_fresh", f"implies(not old(self._rel_stale) and not is_none(index), self._rel == old(self._rel) and len({RL}) == old(len({RL})) + 1 and {RL}[index] == msg"
                                                   f" and forall(0, index, lambda j: {RLj} == old({RLj})) and forall(index + 1, len({RL}), lambda j: {RLj} == old({RL}[j - 1])))")],
            extra_requires=["not is_none(msg.message_type) and implies(msg.message_type == MessageType.WAIT, not is_none(msg.time) and msg.time >= 0) and " + WF_MSG("msg"),
                            f"implies(not self._rel_stale, forall(0, len({RL}), lambda j: {RLj} != msg) and implies(not is_none(index), 0 <= index and index <= len({RL})))",
                            f"implies(self._rel_stale, is_none(index) or index == 0)",
                            f"implies(not self._abs_stale, forall(0, len({A}), lambda j: {A}[j] != msg))"])
abs_mutator("add_absolute_message", {"msg": "ref:Message"},
            extra_requires=["not is_none(msg.message_type) and msg.message_type != MessageType.WAIT and not is_none(msg.time) and msg.time >= 0 and " + WF_MSG("msg"),
                            f"implies(not self._abs_stale, forall(0, len({A}), lambda j: {A}[j] != msg))",
                            f"implies(not self._rel_stale, forall(0, len({RL}), lambda j: {RLj} != msg))"])
abs_mutator("cutoff", {"maximum_length": "int", "reduced_length": "int"}, props=["C18"])
abs_mutator("quantise", {"step_sizes": "list:int?"})
abs_mutator("quantise_note_lengths", {"note_values": "list:int?", "standard_length": "int", "do_not_extend": "bool"})
rel_mutator("quantise_and_normalise", {"step_sizes": "list:int?", "note_values": "list:int?", "standard_length": "int", "do_not_extend": "bool"}, weak=True)

# transpose: delegates, then re-normalises and re-quantises when an octave move happened (C14.d/e)
contract("Sequence.transpose", params={"self": "ref:Sequence", "transpose_by": "int"}, result="bool", allocates=True, cases=CASES,
         requires=[PROTO()],
         modifies=dict(WRAP_MOD_WEAK),
         ensures=[("proto", PROTO()),
                  ("unshifted_state", "implies(not result, not self._rel_stale and self._abs_stale)"),
                  ("shifted_state", "implies(result, not self._abs_stale and self._rel_stale)"),
                  ("exact_when_unmoved", f"implies(not result and not old(self._rel_stale), self._rel == old(self._rel) and forall(0, len({RL}), lambda j: implies({NOTE(RLj)}, {RLj}.note == old({RLj}.note) + transpose_by)))"),
                  ("keys_when_unmoved", f"implies(not result and not old(self._rel_stale), forall(0, len({RL}), lambda j: implies({IS(RLj, 'KEY_SIGNATURE')}, not is_none({RLj}.key) and tonic({RLj}.key) == (tonic(old({RLj}.key)) + transpose_by) % 12)))")],
         props=["C14", "C04", "C16"])

# overwrite: the overwritten view becomes the fresh one (D7)
contract("Sequence.overwrite_absolute_messages", params={"self": "ref:Sequence", "messages": "list:ref:Message"}, allocates=True,
         requires=[WF_ABS("messages")], modifies=dict(SELF_FIELDS),
         ensures=[("abs_fresh_rel_stale", "not self._abs_stale and self._rel_stale"), ("proto", PROTO()), ("new_list", f"fresh(self._abs) and fresh({A}) and {A} != messages"),
                  ("same_messages_when_sorted", f"len({A}) == len(messages)")],
         loops={"L0": dict(fingerprint="for msg in messages", inv=[
             ("building", f"not is_none(abs) and fresh(abs) and fresh(abs._messages) and abs._messages != messages and len(abs._messages) == i"),
             # (what has been inserted so far is none of the messages still to come: gives distinctness without an existential)
             ("unvisited", "forall(0, len(abs._messages), lambda a: forall(i, len(messages), lambda b: abs._messages[a] != messages[b]))"),
             ("wf", WF_ABS("abs._messages"))])},
         props=["C04"])
contract("Sequence.overwrite_relative_messages", params={"self": "ref:Sequence", "messages": "list:ref:Message"}, allocates=True,
         requires=[WF_REL("messages")], modifies=dict(SELF_FIELDS),
         ensures=[("rel_fresh_abs_stale", "not self._rel_stale and self._abs_stale"), ("proto", PROTO()), ("new_list", f"fresh(self._rel) and fresh({RL}) and {RL} != messages"),
                  ("same_messages", f"len({RL}) == len(messages) and forall(0, len(messages), lambda j: {RLj} == messages[j])")],
         loops={"L0": dict(fingerprint="for msg in messages", inv=[
             ("building", f"not is_none(rel) and fresh(rel) and fresh(rel._messages) and rel._messages != messages and len(rel._messages) == i"),
             ("prefix", "forall(0, i, lambda j: rel._messages[j] == messages[j])")])},
         props=["C04"])

# ------------------------------------------------------------------ copy (C16, C04)
from .message import SAMEF
RA_, RR_ = "result._abs._messages", "result._rel._messages"
contract("Sequence.copy", params={"self": "ref:Sequence"}, result="ref:Sequence", allocates=True, cases=CASES,
         requires=[PROTO()],
         modifies={},
         ensures=[("fresh", "not is_none(result) and fresh(result) and result != self"),
                  ("proto", PROTO("result")),
                  ("same_state", "result._abs_stale == self._abs_stale and result._rel_stale == self._rel_stale"),
                  ("abs_copied", f"implies(not self._abs_stale, fresh(result._abs) and fresh({RA_}) and len({RA_}) == len({A}) and forall(0, len({A}), lambda j: fresh({RA_}[j]) and {SAMEF(RA_ + '[j]', A + '[j]')}))"),
                  ("rel_copied", f"implies(not self._rel_stale, fresh(result._rel) and fresh({RR_}) and len({RR_}) == len({RL}) and forall(0, len({RL}), lambda j: fresh({RR_}[j]) and {SAMEF(RR_ + '[j]', RL + '[j]')}))"),
                  ("source_untouched", "self._abs_stale == old(self._abs_stale) and self._rel_stale == old(self._rel_stale) and self._abs == old(self._abs) and self._rel == old(self._rel)"),
                  ("source_proto", PROTO())],
         props=["C16", "C04"])


# ------------------------------------------------------------------ equals (C17.e): delegates with the same flags
contract("Sequence.equals", params={"self": "ref:Sequence", "other": "ref:Sequence?", "ignore_channel": "bool", "ignore_time_signature": "bool", "ignore_key_signature": "bool", "ignore_velocity": "bool"},
         result="bool", allocates=True, cases=CASES,
         requires=[PROTO(), "implies(not is_none(other), " + PROTO("other") + ")"],
         modifies=dict(WRAP_MOD_WEAK, **{"_abs": "[self, other]", "_rel": "[self, other]", "_abs_stale": "[self, other]", "_rel_stale": "[self, other]"}),
         ensures=[("not_a_sequence", "implies(is_none(other), not result)"),
                  ("delegates_with_the_same_flags", "implies(not is_none(other), result == abs_equals_result(self._abs, other._abs, ignore_channel, ignore_time_signature, ignore_key_signature, ignore_velocity))")],
         props=["C17", "C04"])

# ------------------------------------------------------------------ what Bar.__init__ needs from the wrapper (C10)
contract("Sequence.get_sequence_duration_relation", params={"self": "ref:Sequence"}, result="real", allocates=True, cases=CASES,
         requires=[PROTO()],
         modifies={"_rel": "self", "_rel_stale": "self", "@lists": "when(self._rel_stale, self._abs._messages)"},
         ensures=[("duration_in_quarters", f"result * PPQN == wsum({RL}, len({RL}))"),
                  ("rel_fresh", "not self._rel_stale and self._abs_stale == old(self._abs_stale) and self._abs == old(self._abs)"),
                  ("kept_when_fresh", f"implies(not old(self._rel_stale), self._rel == old(self._rel) and wsum({RL}, len({RL})) == old(wsum({RL}, len({RL}))))"),
                  ("proto", PROTO())],
         props=["C10"])
contract("Sequence.messages_rel", params={"self": "ref:Sequence"}, result="list:ref:Message", allocates=True, trusted=True,
         note="generator protocol (A): consumed completely by a comprehension, messages_rel() yields the messages of the (refreshed) relative view in order and leaves the absolute view stale",
         requires=[PROTO()],
         modifies={"_rel": "self", "_rel_stale": "self", "_abs_stale": "self", "@lists": "when(self._rel_stale, self._abs._messages)"},
         ensures=[("yields_the_relative_view", f"result == {RL} and not self._rel_stale and self._abs_stale"),
                  ("kept_when_fresh", "implies(not old(self._rel_stale), self._rel == old(self._rel))"),
                  ("wf", WF_REL(RL))],
         props=["C10"])
