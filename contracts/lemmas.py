"""Inductive lemmas about spec functions, each proved stand-alone (base + step obligations).
Contracts may assume *instances* of these lemmas (Contract.lemmas); they are never assumed without their own proof."""
import z3
from .registry import lemma

I = z3.IntSort()


@lemma("wsum_mono", ["C18", "C10", "C08", "C07", "C04", "C09", "C11"])
def wsum_mono(ctx):
    """f(0)=0, f(k+1)=f(k)+w(k), w(k)>=0 on [0,n)  ==>  forall a<=b<=n. f(a)<=f(b)   (induction on b)"""
    f = z3.Function("f", I, I)
    w = z3.Function("w", I, I)
    n, a, b, k = z3.Ints("n a b k")
    ax = [f(0) == 0, z3.ForAll([k], z3.Implies(k >= 0, f(k + 1) == f(k) + w(k)), patterns=[f(k + 1)]),
          z3.ForAll([k], z3.Implies(z3.And(0 <= k, k < n), w(k) >= 0), patterns=[w(k)])]
    P = lambda bb: z3.ForAll([a], z3.Implies(z3.And(0 <= a, a <= bb), f(a) <= f(bb)), patterns=[f(a)])
    return [("base", ax, z3.ForAll([a], z3.Implies(z3.And(0 <= a, a <= 0), f(a) <= f(0))), "P(0)"),
            ("step", ax + [0 <= b, b < n, P(b)], z3.Implies(z3.And(0 <= a, a <= b + 1), f(a) <= f(b + 1)), "P(b) and b<n imply P(b+1)")]


@lemma("wsum_scale", ["C18"])
def wsum_scale(ctx):
    """g(k+1)=g(k)+c*w(k), f(k+1)=f(k)+w(k)  ==>  g(k) = c*f(k)  (induction); stated for each c in 1..8 and symbolically"""
    f = z3.Function("f", I, I)
    g = z3.Function("g", I, I)
    w = z3.Function("w", I, I)
    c, k, b = z3.Ints("c k b")
    out = []
    for cv in list(range(1, 9)) + [None]:
        cc = z3.IntVal(cv) if cv is not None else c
        ax = [f(0) == 0, g(0) == 0, z3.ForAll([k], z3.Implies(k >= 0, f(k + 1) == f(k) + w(k)), patterns=[f(k + 1)]),
              z3.ForAll([k], z3.Implies(k >= 0, g(k + 1) == g(k) + cc * w(k)), patterns=[g(k + 1)])]
        nm = f"c={cv}" if cv is not None else "c symbolic"
        out.append((f"base[{nm}]", ax, g(0) == cc * f(0), "g(0) = c f(0)"))
        out.append((f"step[{nm}]", ax + [b >= 0, g(b) == cc * f(b)], g(b + 1) == cc * f(b + 1), "g(b)=c f(b) implies g(b+1)=c f(b+1)"))
    return out


@lemma("wsum_ext", ["C18", "C10", "C08", "C07", "C04", "C09", "C11", "C16"])
def wsum_ext(ctx):
    """two wait-sum functions whose weights agree pointwise (second list shifted by s in {0,1} with zero weights in front)
    agree:  (forall j<n. w1(j) = w2(j+s)) and (forall j<s. w2(j) = 0)  ==>  forall k<=n. f2(k+s) = f1(k)      (induction on k)"""
    f1, f2 = z3.Function("f1", I, I), z3.Function("f2", I, I)
    w1, w2 = z3.Function("w1", I, I), z3.Function("w2", I, I)
    n, k, j, b = z3.Ints("n k j b")
    out = []
    for s_ in (0, 1):
        ax = [f1(0) == 0, f2(0) == 0,
              z3.ForAll([k], z3.Implies(k >= 0, f1(k + 1) == f1(k) + w1(k)), patterns=[f1(k + 1)]),
              z3.ForAll([k], z3.Implies(k >= 0, f2(k + 1) == f2(k) + w2(k)), patterns=[f2(k + 1)]),
              z3.ForAll([j], z3.Implies(z3.And(0 <= j, j < n), w1(j) == w2(j + s_)), patterns=[w1(j)]),
              z3.ForAll([j], z3.Implies(z3.And(0 <= j, j < s_), w2(j) == 0), patterns=[w2(j)])]
        out.append((f"base[s={s_}]", ax, f2(0 + s_) == f1(0), "k = 0"))
        out.append((f"step[s={s_}]", ax + [0 <= b, b < n, f2(b + s_) == f1(b)], f2(b + 1 + s_) == f1(b + 1), "k -> k+1"))
    return out


@lemma("tdiv_frac", ["C01", "C03", "C09", "C10"])
def tdiv_frac(ctx):
    """truncation of equal fractions: a*d == c*b, b > 0, d > 0, a, c >= 0  ==>  trunc(a/b) == trunc(c/d).
    Proved on the defining property of the truncated quotient q = trunc(x/y) for x >= 0 < y:  y*q <= x < y*(q+1)."""
    a, b, c, d, p, q = z3.Ints("a b c d p q")
    hyp = [a >= 0, c >= 0, b > 0, d > 0, a * d == c * b, b * p <= a, a < b * (p + 1), d * q <= c, c < d * (q + 1)]
    return [("equal_quotients", hyp, p == q, "the truncated quotients of equal non-negative fractions coincide")]


@lemma("exact_div", ["C01", "C03"])
def exact_div(ctx):
    """d > 0 and d | a  ==>  (a div d) * d == a   (definition of integer division; used for the eighth-note form of a time signature)"""
    a, d = z3.Ints("a d")
    return [("exact", [d > 0, a % d == 0], (a / d) * d == a, "an exact integer quotient times its divisor is the dividend")]


@lemma("wsum_remove", ["C07"])
def wsum_remove(ctx):
    """removing one zero-weight element keeps the sum:  w2(j) = w1(j) for j < p,  w2(j) = w1(j+1) for j >= p,  w1(p) = 0
       ==>  f2(k) = f1(k) for k <= p   and   f2(k) = f1(k+1) for k >= p        (two inductions on k)"""
    f1, f2 = z3.Function("f1", I, I), z3.Function("f2", I, I)
    w1, w2 = z3.Function("w1", I, I), z3.Function("w2", I, I)
    p_, k, j, b = z3.Ints("p k j b")
    ax = [f1(0) == 0, f2(0) == 0, p_ >= 0, w1(p_) == 0,
          z3.ForAll([k], z3.Implies(k >= 0, f1(k + 1) == f1(k) + w1(k)), patterns=[f1(k + 1)]),
          z3.ForAll([k], z3.Implies(k >= 0, f2(k + 1) == f2(k) + w2(k)), patterns=[f2(k + 1)]),
          z3.ForAll([j], z3.Implies(z3.And(0 <= j, j < p_), w2(j) == w1(j)), patterns=[w2(j)]),
          z3.ForAll([j], z3.Implies(j >= p_, w2(j) == w1(j + 1)), patterns=[w2(j)])]
    return [("below.base", ax, f2(0) == f1(0), "k = 0"),
            ("below.step", ax + [0 <= b, b < p_, f2(b) == f1(b)], f2(b + 1) == f1(b + 1), "k -> k+1 below p"),
            ("above.base", ax + [f2(p_) == f1(p_)], f2(p_) == f1(p_ + 1), "k = p: f1(p+1) = f1(p) + 0"),
            ("above.step", ax + [b >= p_, f2(b) == f1(b + 1)], f2(b + 1) == f1(b + 2), "k -> k+1 above p")]


@lemma("lastidx_range", ["C07"])
def lastidx_range(ctx):
    """f(0) = -1, f(k+1) = (k if hit(k) else f(k))  ==>  -1 <= f(k) < k  and  (f(k) >= 0 ==> hit(f(k)))      (induction on k)"""
    f = z3.Function("f", I, I)
    hit = z3.Function("hit", I, z3.BoolSort())
    k, b = z3.Ints("k b")
    ax = [f(0) == -1, z3.ForAll([k], z3.Implies(k >= 0, f(k + 1) == z3.If(hit(k), k, f(k))), patterns=[f(k + 1)])]
    P = lambda x: z3.And(-1 <= f(x), f(x) < x, z3.Implies(f(x) >= 0, hit(f(x))))
    return [("base", ax, P(z3.IntVal(0)), "k = 0"), ("step", ax + [b >= 0, P(b)], P(b + 1), "k -> k+1")]


@lemma("lastidx_ext", ["C07"])
def lastidx_ext(ctx):
    """two last-index functions whose hit predicates agree on [0, n) agree on [0, n]   (induction on k)"""
    f1, f2 = z3.Function("f1", I, I), z3.Function("f2", I, I)
    h1, h2 = z3.Function("h1", I, z3.BoolSort()), z3.Function("h2", I, z3.BoolSort())
    k, b, n, j = z3.Ints("k b n j")
    ax = [f1(0) == -1, f2(0) == -1,
          z3.ForAll([k], z3.Implies(k >= 0, f1(k + 1) == z3.If(h1(k), k, f1(k))), patterns=[f1(k + 1)]),
          z3.ForAll([k], z3.Implies(k >= 0, f2(k + 1) == z3.If(h2(k), k, f2(k))), patterns=[f2(k + 1)]),
          z3.ForAll([j], z3.Implies(z3.And(0 <= j, j < n), h1(j) == h2(j)), patterns=[h1(j)])]
    return [("base", ax, f2(0) == f1(0), "k = 0"), ("step", ax + [0 <= b, b < n, f2(b) == f1(b)], f2(b + 1) == f1(b + 1), "k -> k+1")]


@lemma("wsum_filter", ["C10"])
def wsum_filter(ctx):
    """R = [x for x in L if c(x)] seen through the counting function cnt (cnt(0)=0, cnt(j+1)=cnt(j)+[c(j)], R[cnt(j)]=L[j] when c(j)):
       if every element that is filtered out has weight 0 then  fR(cnt(j)) = fL(j) for all j <= n, in particular fR(m) = fL(n)   (induction on j)"""
    fL, fR = z3.Function("fL", I, I), z3.Function("fR", I, I)
    wL, wR = z3.Function("wL", I, I), z3.Function("wR", I, I)
    c = z3.Function("c", I, z3.BoolSort())
    cnt = z3.Function("cnt", I, I)
    n, k, j, b = z3.Ints("n k j b")
    ax = [fL(0) == 0, fR(0) == 0, cnt(0) == 0, n >= 0,
          z3.ForAll([k], z3.Implies(k >= 0, fL(k + 1) == fL(k) + wL(k)), patterns=[fL(k + 1)]),
          z3.ForAll([k], z3.Implies(k >= 0, fR(k + 1) == fR(k) + wR(k)), patterns=[fR(k + 1)]),
          z3.ForAll([j], z3.Implies(j >= 0, z3.And(cnt(j + 1) == cnt(j) + z3.If(z3.And(j < n, c(j)), 1, 0), cnt(j) >= 0)), patterns=[cnt(j + 1)]),
          z3.ForAll([j], z3.Implies(z3.And(0 <= j, j < n, c(j)), wR(cnt(j)) == wL(j)), patterns=[cnt(j)]),
          z3.ForAll([j], z3.Implies(z3.And(0 <= j, j < n, z3.Not(c(j))), wL(j) == 0), patterns=[wL(j)])]
    return [("base", ax, fR(cnt(0)) == fL(0), "j = 0"),
            ("step", ax + [0 <= b, b < n, fR(cnt(b)) == fL(b)], fR(cnt(b + 1)) == fL(b + 1), "j -> j+1")]


@lemma("bar_length_is_capacity", ["C09", "C10"])
def bar_length_is_capacity(ctx):
    """The bar length `sequences_split_bars` cuts (its assignment to `length_bar`) and the capacity the Bar constructor demands (its first
    assignment to `capacity`, truncated) are the same number of ticks whenever that capacity is a whole number of ticks -- both expressions
    are taken from the real source on every run and evaluated by the executor's own arithmetic (FLOAT-EXACT) for symbolic numerator >= 0,
    denominator > 0.  (When the capacity is not whole the constructor raises: Bar.__init__#c10.)"""
    import ast as _ast
    from pyvc.engine import Exec, State, mk_heap, _as_frac, _tdiv
    from pyvc.values import Num

    def find_assign(qual, target):
        fn, _ = ctx.sources.find(qual)
        for n in _ast.walk(fn):
            if isinstance(n, _ast.Assign) and len(n.targets) == 1 and isinstance(n.targets[0], _ast.Name) and n.targets[0].id == target:
                return n.value
        raise KeyError(f"{qual}: no assignment to {target}")
    e_len = find_assign("Sequence.sequences_split_bars", "length_bar")
    e_cap = find_assign("Bar.__init__", "capacity")
    n, d = z3.Ints("numerator denominator")
    X = Exec(ctx, "lemma", None, silent=True)
    st = State({}, mk_heap(ctx), [], {})
    selfv = z3.Int("self")
    from pyvc.values import Ref
    st.env = {"current_ts_numerator": Num(n), "current_ts_denominator": Num(d), "self": Ref(selfv, "Bar")}
    X.write_field(st, st.env["self"], "time_signature_numerator", Num(n))
    X.write_field(st, st.env["self"], "time_signature_denominator", Num(d))
    for k_, v_ in ctx.globals.items():
        st.env.setdefault(k_, v_)
    length_bar = X.ev(e_len, st)
    cap = X.ev(e_cap, st)
    fr = _as_frac(cap.as_real())
    if fr is None:
        raise ValueError("capacity expression is not a quotient of integers")
    whole = fr[0] % fr[1] == 0
    cap_int = _tdiv(fr[0], fr[1])
    lb = length_bar.v if not length_bar.real else None
    if lb is None:
        raise ValueError("length_bar is not an int expression")
    a_, d_ = z3.Ints("a!td d!td")
    from pyvc.engine import TDIV
    tdiv_exact = z3.ForAll([a_, d_], z3.Implies(z3.And(d_ > 0, a_ % d_ == 0), TDIV(a_, d_) == a_ / d_), patterns=[TDIV(a_, d_)])
    hyp = [n >= 0, d > 0, whole, tdiv_exact] + list(st.pc)
    return [("same_ticks_when_whole", hyp, lb == cap_int, f"length_bar `{_ast.unparse(e_len)}` == int(capacity `{_ast.unparse(e_cap)}`) whenever the capacity is whole")]


@lemma("quantise_candidates_on_grid", ["C05"])
def quantise_candidates_on_grid(ctx):
    """The two candidate positions `quantise` computes per step size (the element expressions of its comprehensions `positions_left` and
    `positions_right`, read from the real source on every run) are grid points of that step that bracket the original time:
    left % s == 0, right % s == 0, left <= t < right, right - left == s   for every t >= 0 and step s > 0.  Every quantised time is chosen
    among these candidates (or is the note's own start), so it lies on the grid of some step and moves by less than that step; and a
    position strictly after the original time always exists within one step (what the survival clause of C05 rests on)."""
    import ast as _ast
    from pyvc.engine import Exec, State, mk_heap
    from pyvc.values import Num, ConstList
    fn, _ = ctx.sources.find("AbsoluteSequence.quantise")
    comps = {}
    for n in _ast.walk(fn):
        if isinstance(n, _ast.Assign) and len(n.targets) == 1 and isinstance(n.targets[0], _ast.Name) and n.targets[0].id in ("positions_left", "positions_right") and isinstance(n.value, _ast.ListComp):
            comps[n.targets[0].id] = n.value
    if set(comps) != {"positions_left", "positions_right"}:
        raise KeyError("quantise: candidate comprehensions not found")
    t, s_ = z3.Ints("message_original_time step_size")
    X = Exec(ctx, "lemma", None, silent=True)
    st = State({}, mk_heap(ctx), [], {})
    st.env = {"message_original_time": Num(t), "step_size": Num(s_)}
    for k_, v_ in ctx.globals.items():
        st.env.setdefault(k_, v_)
    gl = comps["positions_left"].generators[0]
    if not (isinstance(gl.target, _ast.Name) and gl.target.id == "step_size"):
        raise KeyError("positions_left: unexpected loop variable")
    left = X.ev(comps["positions_left"].elt, st)
    gr = comps["positions_right"].generators[0]
    st2 = State(dict(st.env), st.heap, [], {})
    st2.env.update({"positions_left": ConstList([left]), "step_sizes": ConstList([Num(s_)])})
    if isinstance(gr.target, _ast.Name):
        st2.env[gr.target.id] = Num(0) if gr.target.id != "step_size" else Num(s_)
    right = X.ev(comps["positions_right"].elt, st2)
    if left.real or right.real:
        raise ValueError("candidate positions are not int expressions")
    hyp = [t >= 0, s_ > 0] + list(st.pc) + list(st2.pc)
    L, Rr = left.v, right.v
    src_l, src_r = _ast.unparse(comps["positions_left"].elt), _ast.unparse(comps["positions_right"].elt)
    return [("left_on_grid", hyp, L % s_ == 0, f"`{src_l}` is a multiple of the step"),
            ("right_on_grid", hyp, Rr % s_ == 0, f"`{src_r}` is a multiple of the step"),
            ("bracket", hyp, z3.And(L <= t, t < Rr), "left <= original time < right"),
            ("one_step_apart", hyp, Rr - L == s_, "right - left == step")]


@lemma("note_length_arithmetic", ["C06"])
def note_length_arithmetic(ctx):
    """Arithmetic core of `quantise_note_lengths`, on the real source expressions (read on every run): with d = off - on the current duration,
    (a) an allowed value v is struck out exactly when the note would then end after the next note of its pitch starts (on + v > next_on),
    (b) after `off += best_fit - d` the note lasts exactly best_fit, and its onset is not touched by that statement."""
    import ast as _ast
    from pyvc.engine import Exec, State, mk_heap
    from pyvc.values import Num
    fn, _ = ctx.sources.find("AbsoluteSequence.quantise_note_lengths")
    sub = {"message_pairing[1].time": "off_t", "message_pairing[0].time": "on_t", "possible_next_pairing[0].time": "next_on"}

    def norm(node):
        txt = _ast.unparse(node)
        for a, b in sub.items():
            txt = txt.replace(a, b)
        return txt
    exprs, test, aug = {}, None, None
    for n in _ast.walk(fn):
        if isinstance(n, _ast.Assign) and len(n.targets) == 1 and isinstance(n.targets[0], _ast.Name) and n.targets[0].id in ("current_duration", "possible_correction", "correction"):
            exprs.setdefault(n.targets[0].id, norm(n.value))
        if isinstance(n, _ast.If) and test is None and "possible_correction" in _ast.unparse(n.test) and "possible_next_pairing" in _ast.unparse(n.test):
            test = norm(n.test)
        if isinstance(n, _ast.AugAssign) and "correction" in _ast.unparse(n.value) and aug is None:
            aug = (norm(n.target), type(n.op).__name__, norm(n.value))
    if set(exprs) != {"current_duration", "possible_correction", "correction"} or test is None or aug is None or aug[0] != "off_t" or aug[1] != "Add":
        raise KeyError(f"quantise_note_lengths: expected statements not found ({sorted(exprs)}, {test}, {aug})")
    on_t, off_t, next_on, v, best = z3.Ints("on_t off_t next_on note_value best_fit")
    X = Exec(ctx, "lemma", None, silent=True)
    st = State({}, mk_heap(ctx), [], {})
    st.env = {"on_t": Num(on_t), "off_t": Num(off_t), "next_on": Num(next_on), "note_value": Num(v), "best_fit": Num(best)}
    ev = lambda src: X.ev(_ast.parse(src, mode="eval").body, st)
    st.env["current_duration"] = ev(exprs["current_duration"])
    st.env["possible_correction"] = ev(exprs["possible_correction"])
    struck = X.truth(ev(test), st)
    st.env["correction"] = ev(exprs["correction"])
    new_off = off_t + ev(aug[2]).v
    hyp = list(st.pc)
    return [("struck_out_iff_overlap", hyp, struck == (on_t + v > next_on), f"`{test}`  <=>  on + note_value > next_on"),
            ("new_duration_is_best_fit", hyp, new_off - on_t == best, f"after `off {aug[1]}= {aug[2]}` with correction = `{exprs['correction']}`: off - on == best_fit")]


@lemma("load_rescaling_no_drift", ["C13"])
def load_rescaling_no_drift(ctx):
    """Tick rescaling in `MidiFile.convert`, on the real statements (scaling factor, accumulation, rounding; read from the source on every run)
    executed symbolically for two consecutive messages with delta times d1, d2 >= 0 and any file resolution > 0 (FLOAT-EXACT): the scaling
    factor is exactly PPQN / file resolution, and BOTH rounded positions are within half a tick of their exact rational positions
    d1*PPQN/res and (d1+d2)*PPQN/res -- the rounding error of the first message does not enter the second (no accumulation)."""
    import ast as _ast
    from pyvc.engine import Exec, State, mk_heap
    from pyvc.values import Num, Ref, VCError
    fn, _ = ctx.sources.find("MidiFile.convert")
    found = {}
    for n in _ast.walk(fn):
        if isinstance(n, _ast.Assign) and len(n.targets) == 1 and isinstance(n.targets[0], _ast.Name) and n.targets[0].id in ("scaling_factor", "rounded_point_in_time"):
            found.setdefault(n.targets[0].id, n.value)
        if isinstance(n, _ast.AugAssign) and isinstance(n.target, _ast.Name) and n.target.id == "current_point_in_time" and isinstance(n.op, _ast.Add):
            found.setdefault("step", n.value)
    if set(found) != {"scaling_factor", "rounded_point_in_time", "step"}:
        raise KeyError(f"convert: rescaling statements not found ({sorted(found)})")
    res, d1, d2 = z3.Ints("file_resolution d1 d2")
    X = Exec(ctx, "lemma", None, silent=True)
    st = State({}, mk_heap(ctx), [], {})
    selfv, m1, m2 = Ref(z3.Int("self"), "MidiFile"), Ref(z3.Int("m1"), "MidiMessage"), Ref(z3.Int("m2"), "MidiMessage")
    st.env = {"self": selfv}
    for k_, v_ in ctx.globals.items():
        st.env.setdefault(k_, v_)
    try:
        st.heap["PPQN"] = z3.Store(st.heap["PPQN"], selfv.v, res) if "PPQN" in st.heap else None
    except Exception:
        pass
    if st.heap.get("PPQN") is None:
        # the file resolution is an attribute of MidiFile that the schema does not list: bind it through a local name instead
        class _R(_ast.NodeTransformer):
            def visit_Attribute(self, node):
                if isinstance(node.value, _ast.Name) and node.value.id == "self" and node.attr == "PPQN":
                    return _ast.copy_location(_ast.Name(id="file_resolution__", ctx=_ast.Load()), node)
                return self.generic_visit(node)
        found = {k: _ast.fix_missing_locations(_R().visit(v)) for k, v in found.items()}
        st.heap.pop("PPQN", None)
        st.env["file_resolution__"] = Num(res)
    X.write_field(st, m1, "time", Num(d1))
    X.write_field(st, m2, "time", Num(d2))
    try:
        f = X.ev(found["scaling_factor"], st)
        st.env["scaling_factor"] = f
        st.env["current_point_in_time"] = Num(0)
        pos = []
        for m in (m1, m2):
            st.env["msg"] = m
            inc = X.ev(found["step"], st)
            cur = st.env["current_point_in_time"]
            st.env["current_point_in_time"] = Num(cur.as_real() + inc.as_real(), real=True)
            pos.append(X.ev(found["rounded_point_in_time"], st))
    except VCError as e:
        raise ValueError(f"rescaling statements outside the modelled subset: {e}")
    P = ctx.consts["settings"]["PPQN"]
    hyp = [res > 0, d1 >= 0, d2 >= 0, m1.v != m2.v] + list(st.pc)
    ex1 = z3.ToReal(d1) * P / z3.ToReal(res)
    ex2 = z3.ToReal(d1 + d2) * P / z3.ToReal(res)
    r1, r2 = (p_.as_real() for p_ in pos)
    half = z3.RealVal("1/2")
    return [("factor_is_the_exact_ratio", hyp, f.as_real() * z3.ToReal(res) == P, f"`{_ast.unparse(found['scaling_factor'])}` * file resolution == PPQN"),
            ("first_within_half_a_tick", hyp, z3.And(r1 - ex1 <= half, ex1 - r1 <= half), "position of the first message"),
            ("second_within_half_a_tick_no_drift", hyp, z3.And(r2 - ex2 <= half, ex2 - r2 <= half), "position of the second message: the first rounding does not accumulate")]


@lemma("split_wait_arithmetic", ["C08"])
def split_wait_arithmetic(ctx):
    """Arithmetic of cutting a wait at a capacity boundary in `RelativeSequence.split`, on the real source (read on every run): in the branch
    where the wait does not fit (`not msg.time <= remaining_capacity`), the wait written into the current piece has exactly the remaining
    capacity, the wait carried into the next piece has `carry_time`, carry_time > 0, and the two add up to the original wait."""
    import ast as _ast
    from pyvc.engine import Exec, State, mk_heap
    from pyvc.values import Num
    fn, _ = ctx.sources.find("RelativeSequence.split")
    carry, fits, waits = None, None, []
    for n in _ast.walk(fn):
        if isinstance(n, _ast.Assign) and len(n.targets) == 1 and isinstance(n.targets[0], _ast.Name) and n.targets[0].id == "carry_time" and carry is None:
            carry = n.value
        if isinstance(n, _ast.If) and fits is None and "remaining_capacity" in _ast.unparse(n.test) and "msg.time" in _ast.unparse(n.test) and any(isinstance(x, _ast.AugAssign) for x in n.body):
            fits = n.test
        if isinstance(n, _ast.Call) and isinstance(n.func, _ast.Name) and n.func.id == "Message":
            kw = {k.arg: k.value for k in n.keywords}
            if "time" in kw and "WAIT" in _ast.unparse(kw.get("message_type", _ast.Constant(value=""))):
                waits.append((n.lineno, kw["time"]))
    waits.sort()
    if carry is None or fits is None or len(waits) != 2:
        raise KeyError(f"split: wait-cutting statements not found (carry={carry is not None}, test={fits is not None}, waits={len(waits)})")
    t, rem = z3.Ints("wait_time remaining_capacity")

    class _R(_ast.NodeTransformer):
        def visit_Attribute(self, node):
            if isinstance(node.value, _ast.Name) and node.value.id == "msg" and node.attr == "time":
                return _ast.copy_location(_ast.Name(id="wait_time", ctx=_ast.Load()), node)
            return self.generic_visit(node)
    fix = lambda e: _ast.fix_missing_locations(_R().visit(_ast.parse(_ast.unparse(e), mode="eval").body))
    X = Exec(ctx, "lemma", None, silent=True)
    st = State({}, mk_heap(ctx), [], {})
    st.env = {"wait_time": Num(t), "remaining_capacity": Num(rem)}
    does_fit = X.truth(X.ev(fix(fits), st), st)
    st.env["carry_time"] = X.ev(fix(carry), st)
    first, second = X.ev(fix(waits[0][1]), st), X.ev(fix(waits[1][1]), st)
    hyp = [t >= 0, rem >= 0, z3.Not(does_fit)] + list(st.pc)
    return [("first_part_fills_the_piece", hyp, first.v == rem, f"`{_ast.unparse(waits[0][1])}` == remaining capacity"),
            ("carried_part_is_positive", hyp, second.v > 0, f"`{_ast.unparse(waits[1][1])}` > 0"),
            ("parts_add_up", hyp, first.v + second.v == t, "the two waits add up to the wait that was cut")]


@lemma("cutoff_arithmetic", ["C18"])
def cutoff_arithmetic(ctx):
    """`AbsoluteSequence.cutoff` on its real statements (read on every run): the test that selects a closed note is `duration > maximum_length`
    (exactly the notes longer than m), the selected note's end becomes onset + reduced_length (so it lasts exactly r), and the statement
    writes the note-off only (the onset is not an assignment target)."""
    import ast as _ast
    from pyvc.engine import Exec, State, mk_heap
    from pyvc.values import Num
    fn, _ = ctx.sources.find("AbsoluteSequence.cutoff")
    test, assign = None, None
    for n in _ast.walk(fn):
        if isinstance(n, _ast.If) and "maximum_length" in _ast.unparse(n.test) and test is None:
            test = n.test
            for x in n.body:
                if isinstance(x, _ast.Assign) and "reduced_length" in _ast.unparse(x.value):
                    assign = x
    if test is None or assign is None or len(assign.targets) != 1:
        raise KeyError("cutoff: selecting test / shortening assignment not found")
    tgt = _ast.unparse(assign.targets[0])
    sub = {"message_pairing[1].time": "off_t", "message_pairing[0].time": "on_t"}

    def norm(node):
        txt = _ast.unparse(node)
        for a, b in sub.items():
            txt = txt.replace(a, b)
        return _ast.parse(txt, mode="eval").body
    on_t, off_t, m, r = z3.Ints("on_t off_t maximum_length reduced_length")
    X = Exec(ctx, "lemma", None, silent=True)
    st = State({}, mk_heap(ctx), [], {})
    st.env = {"on_t": Num(on_t), "off_t": Num(off_t), "maximum_length": Num(m), "reduced_length": Num(r)}
    selected = X.truth(X.ev(norm(test), st), st)
    new_off = X.ev(norm(assign.value), st).v
    hyp = list(st.pc)
    return [("selects_exactly_the_longer_notes", hyp, selected == (off_t - on_t > m), f"`{_ast.unparse(test)}`  <=>  duration > maximum"),
            ("shortened_to_the_replacement", hyp, new_off - on_t == r, f"`{tgt} = {_ast.unparse(assign.value)}`: the note then lasts exactly reduced_length"),
            ("writes_the_note_off_only", hyp, z3.BoolVal(tgt == "message_pairing[1].time"), f"assignment target is `{tgt}`")]


@lemma("dictionary_ids_are_consecutive", ["C02"])
def dictionary_ids_are_consecutive(ctx):
    """Structure of `_construct_dictionary` (checked on the real AST on every run): every store `self.dictionary[key] = id` is immediately
    followed IN THE SAME BLOCK by `self._dictionary_size += 1`; the id is `self.dictionary_size` (or, in the straight-line prefix, the literal
    equal to the number of stores before it); `_dictionary_size` is written nowhere else in the function.  By induction over the execution,
    `_dictionary_size` is the number of stores so far at every store, hence the ids handed out are 0, 1, 2, ... in order (the size equals the
    number of stores; distinctness of the KEYS is the separate vocabulary clause)."""
    import ast as _ast
    fn, _ = ctx.sources.find("MultiTrackLargeVocabularyNotelikeTokeniser._construct_dictionary")
    if fn is None:
        raise KeyError("_construct_dictionary not found")
    is_store = lambda s: (isinstance(s, _ast.Assign) and len(s.targets) == 1 and isinstance(s.targets[0], _ast.Subscript)
                          and _ast.unparse(s.targets[0].value) == "self.dictionary")
    is_inc = lambda s: (isinstance(s, _ast.AugAssign) and _ast.unparse(s.target) == "self._dictionary_size" and isinstance(s.op, _ast.Add)
                        and isinstance(s.value, _ast.Constant) and s.value.value == 1)
    paired, ids_ok, n_stores, n_incs, prefix = True, True, 0, 0, 0
    details = []

    def walk(block, top):
        nonlocal paired, ids_ok, n_stores, n_incs, prefix
        for k, s in enumerate(block):
            if is_store(s):
                n_stores += 1
                nxt = block[k + 1] if k + 1 < len(block) else None
                if nxt is None or not is_inc(nxt):
                    paired = False
                    details.append(f"line {s.lineno}: store not followed by the increment in its block")
                v = s.value
                if isinstance(v, _ast.Constant):
                    if not (top and v.value == prefix):
                        ids_ok = False
                        details.append(f"line {s.lineno}: literal id {v.value} is not the number of stores before it ({prefix})")
                elif _ast.unparse(v) not in ("self.dictionary_size", "self._dictionary_size"):
                    ids_ok = False
                    details.append(f"line {s.lineno}: id expression `{_ast.unparse(v)}`")
                if top:
                    prefix += 1
            elif is_inc(s):
                n_incs += 1
                if k == 0 or not is_store(block[k - 1]):
                    paired = False
                    details.append(f"line {s.lineno}: increment without a store before it")
            else:
                if top and isinstance(s, (_ast.For, _ast.While, _ast.If)):
                    prefix = -10 ** 9          # literals are only allowed before the first compound statement
                for f_ in ("body", "orelse"):
                    sub = getattr(s, f_, None)
                    if isinstance(sub, list) and sub and isinstance(sub[0], _ast.stmt):
                        walk(sub, False)
    walk(fn.body, True)
    other_writes = [n.lineno for n in _ast.walk(fn) if isinstance(n, (_ast.Assign, _ast.AugAssign)) and "_dictionary_size" in _ast.unparse(n.targets[0] if isinstance(n, _ast.Assign) else n.target) and not is_inc(n)]
    prop_ok = True
    cls = ctx.sources.classes.get("MultiTrackLargeVocabularyNotelikeTokeniser", {})
    getter = cls.get("methods", {}).get("dictionary_size")
    if getter is not None:
        rets = [n for n in _ast.walk(getter) if isinstance(n, _ast.Return)]
        prop_ok = len(rets) == 1 and _ast.unparse(rets[0].value) == "self._dictionary_size"
    txt = "; ".join(details[:4])
    return [("every_store_is_followed_by_one_increment", [], z3.BoolVal(paired and n_stores == n_incs and n_stores > 0), f"{n_stores} stores, {n_incs} increments {txt}"),
            ("ids_are_the_running_size", [], z3.BoolVal(ids_ok and prop_ok), f"id expressions are the running size {txt}"),
            ("size_is_written_nowhere_else", [], z3.BoolVal(not other_writes), f"other writes at lines {other_writes}")]


@lemma("split_cut_note_fields", ["C08"])
def split_cut_note_fields(ctx):
    """Where `RelativeSequence.split` cuts the sounding notes at a boundary (the loop over `open_messages.items()`), on the real constructor
    calls (read on every run, keyword expressions evaluated symbolically for an arbitrary open note `value` and an arbitrary current message
    `msg`): the closing NOTE_OFF carries the open note's channel and pitch, and the re-struck NOTE_ON carries its channel, pitch and velocity."""
    import ast as _ast
    from pyvc.engine import Exec, State, mk_heap
    from pyvc.values import Num, Ref
    fn, _ = ctx.sources.find("RelativeSequence.split")
    loop = None
    for n in _ast.walk(fn):
        if isinstance(n, _ast.For) and "open_messages.items()" in _ast.unparse(n.iter):
            loop = n
    if loop is None or not (isinstance(loop.target, _ast.Tuple) and len(loop.target.elts) == 2 and isinstance(loop.target.elts[1], _ast.Name)):
        raise KeyError("split: loop over the open notes not found")
    vname = loop.target.elts[1].id
    calls = {}
    for n in _ast.walk(loop):
        if isinstance(n, _ast.Call) and isinstance(n.func, _ast.Name) and n.func.id == "Message":
            kw = {k.arg: k.value for k in n.keywords}
            mt = _ast.unparse(kw.get("message_type", _ast.Constant(value="")))
            for kind in ("NOTE_OFF", "NOTE_ON"):
                if mt.endswith(kind):
                    calls[kind] = kw
    if set(calls) != {"NOTE_OFF", "NOTE_ON"}:
        raise KeyError(f"split: closing / re-opening messages not found ({sorted(calls)})")
    X = Exec(ctx, "lemma", None, silent=True)
    st = State({}, mk_heap(ctx), [], {})
    value, msg = Ref(z3.Int("open_note"), "Message"), Ref(z3.Int("current_msg"), "Message")
    st.env = {vname: value, "msg": msg}
    for k_, v_ in ctx.globals.items():
        st.env.setdefault(k_, v_)
    hyp = [value.v != msg.v]
    goals = []
    for kind, fields in (("NOTE_OFF", ("channel", "note")), ("NOTE_ON", ("channel", "note", "velocity"))):
        for f_ in fields:
            if f_ not in calls[kind]:
                goals.append((f"{kind.lower()}_{f_}", hyp, z3.BoolVal(False), f"{kind}: keyword {f_} missing"))
                continue
            got = X.ev(calls[kind][f_], st)
            want = X.read_field(st, value, f_)
            goals.append((f"{kind.lower()}_{f_}", hyp + list(st.pc), X.eq(got, want, st), f"{kind}({f_}=`{_ast.unparse(calls[kind][f_])}`) is the open note's {f_}"))
    return goals
