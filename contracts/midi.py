"""scoda/midi/*.py leaf functions (C12.a-c, C13.d)"""
from .registry import contract
from .macros import *
from .schema import MSG

FIELDS = list(MSG)
SM = "self.messages"
SAMEALL = lambda a, b: " and ".join(f"{a}.{f} == {b}.{f}" for f in FIELDS)

# ---------------------------------------------------------------- parse_internal_message: field-wise copy (C12.a)
contract("MidiMessage.parse_internal_message", params={"message": "ref:Message"}, result="ref:MidiMessage", allocates=True,
         ensures=[("fresh", "not is_none(result) and fresh(result)"), ("all_fields_copied", SAMEALL("result", "message"))],
         props=["C12"])

# ---------------------------------------------------------------- to_midi_track (C12.a)
TM = "track.messages"
contract("RelativeSequence.to_midi_track", params={"self": "ref:RelativeSequence"}, result="ref:MidiTrack", allocates=True,
         requires=[],
         ensures=[("one_message_each", f"not is_none(result) and fresh(result) and len(result.messages) == len({M})"),
                  ("fields_copied", f"forall(0, len({M}), lambda j: {SAMEALL('result.messages[j]', M + '[j]')})")],
         loops={"L0": dict(fingerprint="for msg in self._messages", inv=[
             ("built", f"not is_none(track) and fresh(track) and fresh({TM}) and {TM} != {M} and len({TM}) == i and forall(0, i, lambda j: allocated({TM}[j]) and fresh({TM}[j]))"),
             ("copied", f"forall(0, i, lambda j: {SAMEALL(TM + '[j]', M + '[j]')})")])},
         props=["C12"])

# ---------------------------------------------------------------- to_mido_track: every event at its absolute tick (C12.b)
TICK = f"time_buffer + wsum(track, len(track), 'time') == wsum({SM}, loop_index('L0') + 1, 'time')"
BYTE = lambda x: f"implies(not is_none({x}), 0 <= {x} and {x} <= 127)"
WFM = (f"forall(0, len({SM}), lambda w: not is_none({SM}[w].message_type) and implies(not is_none({SM}[w].time), {SM}[w].time >= 0) and " + WF_MSG(SM + "[w]") +
       f" and {BYTE(SM + '[w].note')} and {BYTE(SM + '[w].velocity')} and {BYTE(SM + '[w].control')}"
       f" and implies({SM}[w].message_type == MessageType.TIME_SIGNATURE, 1 <= {SM}[w].numerator and {SM}[w].numerator <= 255 and ({SM}[w].denominator == 1 or {SM}[w].denominator == 2 or {SM}[w].denominator == 4 or {SM}[w].denominator == 8 or {SM}[w].denominator == 16))" +
       f" and implies({SM}[w].message_type == MessageType.CONTROL_CHANGE, not is_none({SM}[w].control) and not is_none({SM}[w].velocity)))")
contract("MidiTrack.to_mido_track", params={"self": "ref:MidiTrack"}, result="list:ref:MidoMsg", allocates=True,
         requires=[WFM],
         ensures=[("no_time_lost_or_invented", f"wsum(result, len(result), 'time') <= wsum({SM}, len({SM}), 'time')")],
         asserts=[("event_written_at_its_tick", "track.append(mido.", TICK),
                  ("note_on_fields", "track.append(mido.Message('note_on'", "True")],
         loops={"L0": dict(fingerprint="for msg in self.messages", inv=[
             ("ticks_conserved", f"time_buffer + wsum(track, len(track), 'time') == wsum({SM}, i, 'time')"),
             ("buffer_nonneg", "time_buffer >= 0"),
             ("track_private", f"fresh(track) and track != {SM} and forall(0, len(track), lambda j: allocated(track[j]) and fresh(track[j]))")])},
         props=["C12"])


# ---------------------------------------------------------------- parse_mido_message (C12.c, C13.d)
MM = "mido_message"
contract("MidiMessage.parse_mido_message", params={"mido_message": "ref:MidoMsg"}, result="ref:MidiMessage", allocates=True,
         requires=[f"implies({MM}.type == 'note_on' or {MM}.type == 'note_off', not is_none({MM}.velocity) and not is_none({MM}.note))",
                   f"implies({MM}.type == 'key_signature', not is_none({MM}.key))"],
         ensures=[("fresh", "not is_none(result) and fresh(result)"),
                  ("time_and_channel", f"result.time == {MM}.time and result.channel == {MM}.channel"),
                  ("note_on", f"implies({MM}.type == 'note_on' and {MM}.velocity > 0, result.message_type == MessageType.NOTE_ON and result.note == {MM}.note and result.velocity == {MM}.velocity)"),
                  ("note_on_velocity_0_is_note_off", f"implies(({MM}.type == 'note_on' and {MM}.velocity == 0) or {MM}.type == 'note_off', result.message_type == MessageType.NOTE_OFF and result.note == {MM}.note)"),
                  ("time_signature", f"implies({MM}.type == 'time_signature', result.message_type == MessageType.TIME_SIGNATURE and result.numerator == {MM}.numerator and result.denominator == {MM}.denominator)"),
                  ("key_signature", f"implies({MM}.type == 'key_signature', result.message_type == MessageType.KEY_SIGNATURE and result.key == {MM}.key)"),
                  ("control_change", f"implies({MM}.type == 'control_change', result.message_type == MessageType.CONTROL_CHANGE and result.control == {MM}.control and result.velocity == {MM}.value)"),
                  ("unknown_kinds_are_untyped", f"implies({MM}.type == 'other', is_none(result.message_type))")],
         props=["C12", "C13"])

# ---------------------------------------------------------------- MidiTrack.parse_mido_track (C13: the load path loses / invents no message and keeps every delta time)
TM = "result.messages"
MT = "mido_track"
MIDO_OK = lambda m: (f"not is_none({m}) and implies({m}.type == 'note_on' or {m}.type == 'note_off', not is_none({m}.velocity) and not is_none({m}.note))"
                     f" and implies({m}.type == 'key_signature', not is_none({m}.key))")
PARSED = lambda a, m: (f"not is_none({a}) and {a}.time == {m}.time and is_none({a}.time) == is_none({m}.time)"
                       f" and implies({m}.type == 'note_on' and {m}.velocity > 0, {a}.message_type == MessageType.NOTE_ON and {a}.note == {m}.note and {a}.velocity == {m}.velocity)"
                       f" and implies(({m}.type == 'note_on' and {m}.velocity == 0) or {m}.type == 'note_off', {a}.message_type == MessageType.NOTE_OFF and {a}.note == {m}.note)"
                       f" and implies({m}.type == 'time_signature', {a}.message_type == MessageType.TIME_SIGNATURE and {a}.numerator == {m}.numerator and {a}.denominator == {m}.denominator)"
                       f" and implies({m}.type == 'key_signature', {a}.message_type == MessageType.KEY_SIGNATURE and {a}.key == {m}.key)")
contract("MidiTrack.parse_mido_track", params={"mido_track": "list:ref:MidoMsg"}, result="ref:MidiTrack", allocates=True,
         requires=[f"forall(0, len({MT}), lambda q: {MIDO_OK(MT + '[q]')})"],
         modifies={},
         ensures=[("one_message_per_file_message", f"not is_none(result) and fresh(result) and fresh({TM}) and len({TM}) == len({MT})"),
                  ("same_delta_times_and_content", f"forall(0, len({MT}), lambda q: {PARSED(TM + '[q]', MT + '[q]')})"),
                  ("wait_sum_kept", f"wsum({TM}, len({TM}), 'time') == wsum({MT}, len({MT}), 'time')")],
         loops={"L0": dict(fingerprint="for msg in mido_track", inv=[
             ("building", f"not is_none(track) and fresh(track) and allocated(track) and fresh(track.messages) and allocated(track.messages) and track.messages != {MT} and len(track.messages) == i"),
             ("parsed_so_far", f"forall(0, i, lambda q: allocated(track.messages[q]) and {PARSED('track.messages[q]', MT + '[q]')})"),
             ("wait_sum_so_far", f"wsum(track.messages, i, 'time') == wsum({MT}, i, 'time')")])},
         props=["C13"])
