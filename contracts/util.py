"""scoda/misc/util.py: find_minimal_distance (C05.g, C06), binary_insort (C01.e, C04)"""
from .registry import contract
from .macros import *

contract("find_minimal_distance", params={"element": "int", "collection": "list:int"}, result="int", pure=True,
         requires=[],
         ensures=[("in_range", "implies(len(collection) > 0, 0 <= result and result < len(collection))"),
                  ("empty_gives_0", "implies(len(collection) == 0, result == 0)"),
                  ("minimal", "forall(0, len(collection), lambda j: abs(collection[result] - element) <= abs(collection[j] - element))"),
                  ("earliest_on_ties", "forall(0, result, lambda j: abs(collection[result] - element) < abs(collection[j] - element))")],
         loops={"L0": dict(fingerprint="for (i, candidate) in enumerate(collection)", inv=[
             ("index_bounds", "0 <= index and implies(i > 0, index < i) and implies(i == 0, index == 0)"),
             ("distance_is", "isinf(distance) == (i == 0) and implies(i > 0, val(distance) == abs(collection[index] - element) and val(distance) > 0)"),
             ("minimal_so_far", "forall(0, i, lambda j: abs(collection[index] - element) <= abs(collection[j] - element))"),
             ("earliest", "forall(0, index, lambda j: abs(collection[index] - element) < abs(collection[j] - element))")])},
         props=["C05", "C06"])

contract("binary_insort", params={"collection": "list:ref:Message", "message": "ref:Message"},
         requires=["forall(0, len(collection), lambda w: not is_none(collection[w].time))", "not is_none(message.time)"],
         modifies={"@lists": "collection"},
         ensures=[("length", "len(collection) == old(len(collection)) + 1"),
                  ("inserted", "exists(0, len(collection), lambda p: collection[p] == message"
                               " and forall(0, p, lambda j: collection[j] == old(collection[j]))"
                               " and forall(p + 1, len(collection), lambda j: collection[j] == old(collection[j - 1]))"
                               " and implies(old(sorted_by_time(collection)),"
                               "             forall(0, p, lambda j: collection[j].time <= message.time) and forall(p + 1, len(collection), lambda j: message.time < collection[j].time)))"),
                  ("sorted_kept", "implies(old(sorted_by_time(collection)),"
                                  " sorted_by_time(collection))"),
                  ("distinct_kept", "implies(old(distinct(collection)) and forall(0, old(len(collection)), lambda j: old(collection[j]) != message), distinct(collection))")],
         loops={"L0": dict(fingerprint="while lo < hi", dec="hi - lo", inv=[
             ("bounds", "0 <= lo and lo <= hi and hi <= len(collection)"),
             ("left_le", "implies(sorted_by_time(collection), forall(0, lo, lambda j: collection[j].time <= message.time))"),
             ("right_gt", "implies(sorted_by_time(collection), forall(hi, len(collection), lambda j: message.time < collection[j].time))")])},
         props=["C01", "C04"])
