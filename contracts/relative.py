"""scoda/sequences/relative_sequence.py"""
from .registry import contract
from .macros import *

Mj = M + "[j]"
OOR = lambda x: f"not (NOTE_LOWER_BOUND <= {x} and {x} <= NOTE_UPPER_BOUND)"
TYPES_KEPT = f"forall(0, len({M}), lambda j: {Mj}.message_type == old({Mj}.message_type))"

# ---------------------------------------------------------------- transpose (C14.a, C14.b)
contract("RelativeSequence.transpose", params={"self": "ref:RelativeSequence", "transpose_by": "int"}, result="bool",
         requires=[WF_REL()],
         modifies={"note": M, "key": M},
         ensures=[
             ("in_range", f"forall(0, len({M}), lambda j: implies({NOTE(Mj)}, NOTE_LOWER_BOUND <= {Mj}.note and {Mj}.note <= NOTE_UPPER_BOUND))"),
             ("pitch_class", f"forall(0, len({M}), lambda j: implies({NOTE(Mj)}, ({Mj}.note - old({Mj}.note) - transpose_by) % 12 == 0))"),
             ("flag_exact", f"result == exists(0, len({M}), lambda j: {NOTE(Mj)} and {OOR('old(' + Mj + '.note) + transpose_by')})"),
             ("exact_shift_when_unmoved", f"implies(not result, forall(0, len({M}), lambda j: implies({NOTE(Mj)}, {Mj}.note == old({Mj}.note) + transpose_by)))"),
             ("minimal_octaves", f"forall(0, len({M}), lambda j: implies({NOTE(Mj)} and not {OOR('old(' + Mj + '.note) + transpose_by')}, {Mj}.note == old({Mj}.note) + transpose_by))"),
             ("keys_transposed", f"forall(0, len({M}), lambda j: implies({IS(Mj, 'KEY_SIGNATURE')}, not is_none({Mj}.key) and tonic({Mj}.key) == (tonic(old({Mj}.key)) + transpose_by) % 12))"),
             ("non_notes_keep_note", f"forall(0, len({M}), lambda j: implies(not {NOTE(Mj)}, {Mj}.note == old({Mj}.note) and is_none({Mj}.note) == old(is_none({Mj}.note))))"),
             ("list_unchanged", f"len({M}) == old(len({M})) and forall(0, len({M}), lambda j: {Mj} == old({Mj}))"),
             ("still_wf", WF_REL()),
         ],
         loops={
             "L0": dict(fingerprint="for msg in self._messages", inv=[
                 ("done_in_range", f"forall(0, i, lambda j: implies({NOTE(Mj)}, NOTE_LOWER_BOUND <= {Mj}.note and {Mj}.note <= NOTE_UPPER_BOUND and ({Mj}.note - old({Mj}.note) - transpose_by) % 12 == 0 and not is_none({Mj}.note)))"),
                 ("rest_untouched", f"forall(i, len({M}), lambda j: {Mj}.note == old({Mj}.note) and is_none({Mj}.note) == old(is_none({Mj}.note)) and {Mj}.key == old({Mj}.key) and is_none({Mj}.key) == old(is_none({Mj}.key)))"),
                 ("non_notes", f"forall(0, i, lambda j: implies(not {NOTE(Mj)}, {Mj}.note == old({Mj}.note) and is_none({Mj}.note) == old(is_none({Mj}.note))))"),
                 ("flag", f"had_to_shift == exists(0, i, lambda j: {NOTE(Mj)} and {OOR('old(' + Mj + '.note) + transpose_by')})"),
                 ("exact", f"forall(0, i, lambda j: implies({NOTE(Mj)} and not {OOR('old(' + Mj + '.note) + transpose_by')}, {Mj}.note == old({Mj}.note) + transpose_by))"),
                 ("keys", f"forall(0, i, lambda j: implies({IS(Mj, 'KEY_SIGNATURE')}, not is_none({Mj}.key) and tonic({Mj}.key) == (tonic(old({Mj}.key)) + transpose_by) % 12))"),
             ]),
             "L1": dict(fingerprint="while msg.note < NOTE_LOWER_BOUND", dec="NOTE_LOWER_BOUND - msg.note", inv=[
                 ("cong", "not is_none(msg.note) and (msg.note - old(msg.note) - transpose_by) % 12 == 0 and msg.note >= old(msg.note) + transpose_by"),
                 ("moved_up_only_if_low", "implies(msg.note > old(msg.note) + transpose_by, old(msg.note) + transpose_by < NOTE_LOWER_BOUND and had_to_shift and msg.note < NOTE_LOWER_BOUND + 12)"),
                 ("exact_if_in_range", f"implies(not {OOR('old(msg.note) + transpose_by')}, msg.note == old(msg.note) + transpose_by)"),
                 ("flag_kept", "implies(msg.note == old(msg.note) + transpose_by, had_to_shift == entry(had_to_shift)) and implies(entry(had_to_shift), had_to_shift)"),
                 ("others", f"forall(0, len({M}), lambda j: implies({Mj} != msg, {Mj}.note == entry_heap({Mj}.note) and is_none({Mj}.note) == entry_heap(is_none({Mj}.note))))"),
             ]),
             "L2": dict(fingerprint="while msg.note > NOTE_UPPER_BOUND", dec="msg.note - NOTE_UPPER_BOUND", inv=[
                 ("cong", "not is_none(msg.note) and (msg.note - old(msg.note) - transpose_by) % 12 == 0 and msg.note >= NOTE_LOWER_BOUND"),
                 ("flag_mono", "implies(entry(had_to_shift), had_to_shift) and implies(msg.note != old(msg.note) + transpose_by, had_to_shift)"),
                 ("flag_only_if_oor", f"implies(had_to_shift != entry(had_to_shift), {OOR('old(msg.note) + transpose_by')})"),
                 ("exact_if_in_range", f"implies(not {OOR('old(msg.note) + transpose_by')}, msg.note == old(msg.note) + transpose_by)"),
                 ("above", "implies(msg.note > NOTE_UPPER_BOUND, msg.note <= old(msg.note) + transpose_by)"),
                 ("flag_if_oor", f"implies({OOR('old(msg.note) + transpose_by')} and msg.note <= NOTE_UPPER_BOUND, had_to_shift)"),
                 ("others", f"forall(0, len({M}), lambda j: implies({Mj} != msg, {Mj}.note == entry_heap({Mj}.note) and is_none({Mj}.note) == entry_heap(is_none({Mj}.note))))"),
             ]),
         },
         props=["C14"])

# ---------------------------------------------------------------- pad (C18, C10, C11)
WS = f"wsum({M}, len({M}))"
contract("RelativeSequence.pad", params={"self": "ref:RelativeSequence", "padding_length": "int"},
         requires=[WF_REL()],
         lemmas=[("wsum_mono", f"wsum_mono({M})")],
         modifies={"@lists": M},
         ensures=[
             ("prefix_kept", f"len({M}) >= old(len({M})) and forall(0, old(len({M})), lambda j: {Mj} == old({Mj}))"),
             ("no_append_when_long_enough", f"implies(old({WS}) >= padding_length, len({M}) == old(len({M})))"),
             ("one_wait_appended_when_short", f"implies(old({WS}) < padding_length, len({M}) == old(len({M})) + 1 and fresh({M}[len({M}) - 1])"
                                               f" and {M}[len({M}) - 1].message_type == MessageType.WAIT and {M}[len({M}) - 1].time == padding_length - old({WS}))"),
             ("still_wf", WF_REL()),
             ("duration_is_max", f"{WS} == max(old({WS}), padding_length)"),
         ],
         loops={"L0": dict(fingerprint="for msg in self._messages", inv=[
             ("length_so_far", f"current_length == wsum({M}, i)"),
             ("not_reached", f"current_length < padding_length or forall(0, i, lambda j: {Mj}.message_type != MessageType.WAIT)")])},
         props=["C18", "C10", "C11"])

# ---------------------------------------------------------------- set_channel (C18)
contract("RelativeSequence.set_channel", params={"self": "ref:RelativeSequence", "channel": "int"},
         requires=[DISTINCT(M)],
         modifies={"channel": M},
         ensures=[("all_set", f"forall(0, len({M}), lambda j: {Mj}.channel == channel and not is_none({Mj}.channel))"),
                  ("list_unchanged", f"len({M}) == old(len({M})) and forall(0, len({M}), lambda j: {Mj} == old({Mj}))")],
         loops={"L0": dict(fingerprint="for msg in self._messages", inv=[
             ("done", f"forall(0, i, lambda j: {Mj}.channel == channel and not is_none({Mj}.channel))")])},
         props=["C18"])

# ---------------------------------------------------------------- scale by an integer k >= 1 (C18)
contract("RelativeSequence.scale", params={"self": "ref:RelativeSequence", "factor": "int", "meta_sequence": "ref:Sequence?"},
         requires=[WF_REL(), "factor >= 1"],
         modifies={"time": M},
         ensures=[("waits_multiplied", f"forall(0, len({M}), lambda j: implies({IS(Mj, 'WAIT')}, {Mj}.time == factor * old({Mj}.time) and not is_none({Mj}.time)))"),
                  ("others_keep_time", f"forall(0, len({M}), lambda j: implies(not {IS(Mj, 'WAIT')}, {Mj}.time == old({Mj}.time) and is_none({Mj}.time) == old(is_none({Mj}.time))))"),
                  ("list_unchanged", f"len({M}) == old(len({M})) and forall(0, len({M}), lambda j: {Mj} == old({Mj}))")],
         loops={"L0": dict(fingerprint="for msg in self._messages", inv=[
             ("done", f"forall(0, i, lambda j: implies({IS(Mj, 'WAIT')}, {Mj}.time == factor * old({Mj}.time) and not is_none({Mj}.time)))"),
             ("done_others", f"forall(0, i, lambda j: implies(not {IS(Mj, 'WAIT')}, {Mj}.time == old({Mj}.time) and is_none({Mj}.time) == old(is_none({Mj}.time))))"),
             ("rest", f"forall(i, len({M}), lambda j: {Mj}.time == old({Mj}.time) and is_none({Mj}.time) == old(is_none({Mj}.time)))")])},
         props=["C18"])

# ---------------------------------------------------------------- to_absolute_sequence (C04, C16, C11)
AS = "absolute_sequence._messages"
RA = "result._messages"
F8 = ("message_type", "note", "velocity", "control", "program", "numerator", "denominator", "key")        # (copy fills in a missing channel)
SAME8 = lambda a, b: " and ".join(f"{a}.{f} == {b}.{f}" for f in F8)
# every event of the relative list is in the absolute list, at the tick given by the waits before it (nothing is lost on conversion)
# ... and conversely every message of the absolute list is such a copy of some event (or the end marker): nothing is invented
NOTHING_NEW = lambda out, hi: (f"forall(0, len({out}), lambda p: {out}[p].message_type == MessageType.INTERNAL or exists(0, {hi}, lambda j:"
                               f" {M}[j].message_type != MessageType.WAIT and {SAME8(out + '[p]', M + '[j]')} and {out}[p].time == wsum({M}, j)))")
EVENTS_KEPT = lambda out, hi: (f"forall(0, {hi}, lambda j: implies({M}[j].message_type != MessageType.WAIT,"
                               f" exists(0, len({out}), lambda p: {SAME8(out + '[p]', M + '[j]')} and {out}[p].time == wsum({M}, j))))")
FRESH_LIST = lambda L: f"forall(0, len({L}), lambda j: fresh({L}[j]))"
contract("RelativeSequence.to_absolute_sequence", params={"self": "ref:RelativeSequence"}, result="ref:AbsoluteSequence", allocates=True,
         requires=[WF_REL()],
         ensures=[("fresh_result", f"not is_none(result) and fresh(result) and fresh({RA}) and {FRESH_LIST(RA)}"),
                  ("wf_abs", WF_ABS(RA)),
                  ("sorted", SORTED(RA)),
                  ("duration_bound", f"forall(0, len({RA}), lambda j: {RA}[j].time <= wsum({M}, len({M})))"),
                  ("duration_reached", f"implies(len({M}) > 0, exists(0, len({RA}), lambda j: {RA}[j].time == wsum({M}, len({M}))))"),
                  ("source_untouched", f"len({M}) == old(len({M})) and forall(0, len({M}), lambda j: {Mj} == old({Mj}))"),
                  ("no_event_lost", EVENTS_KEPT(RA, f"len({M})")),
                  ("nothing_invented", NOTHING_NEW(RA, f"len({M})"))],
         asserts=[("no_event_lost_before_the_end_marker", "if not cap_message_exists", EVENTS_KEPT(AS, f"len({M})"))] if False else [],
         loops={"L0": dict(fingerprint="for msg in self._messages", inv=[
             ("events_kept", EVENTS_KEPT(AS, "i")),
             ("nothing_new", NOTHING_NEW(AS, "i")),
             ("out_fresh", f"not is_none(absolute_sequence) and fresh(absolute_sequence) and fresh({AS}) and {FRESH_LIST(AS)}"),
             ("out_wf", WF_ABS(AS)),
             ("clock", f"current_point_in_time >= 0 and current_point_in_time == wsum({M}, i)"),
             ("bounded", f"forall(0, len({AS}), lambda j: {AS}[j].time <= current_point_in_time)"),
             ("reached", f"implies(cap_message_exists and i > 0, exists(0, len({AS}), lambda j: {AS}[j].time == current_point_in_time))"),
         ])},
         props=["C04", "C16", "C11"])

# ---------------------------------------------------------------- normalise_relative (C07: duration, wf; C04/C16: frame, fresh list)
OUT = "messages_normalized"
ALLOC = lambda L: f"forall(0, len({L}), lambda w: allocated({L}[w]))"
NORM_DUR = f"wsum({OUT}, len({OUT}))"
NORM_INV = [("own_list", f"fresh({OUT}) and allocated({OUT})"), ("wf", WF_REL(OUT)), ("allocated", ALLOC(OUT))]
def LASTI(L, k, t):
    return f"lastidx({L}, {k}, '{t}')"


def TSD(L):
    """a time signature kept in L differs from the time signature kept before it (the one in force)"""
    p = LASTI(L, "b", "TIME_SIGNATURE")
    return (f"forall(0, len({L}), lambda b: implies({IS(L + '[b]', 'TIME_SIGNATURE')} and {p} >= 0,"
            f" {L}[{p}].numerator != {L}[b].numerator or {L}[{p}].denominator != {L}[b].denominator))")


def KSD(L):
    p = LASTI(L, "b", "KEY_SIGNATURE")
    return f"forall(0, len({L}), lambda b: implies({IS(L + '[b]', 'KEY_SIGNATURE')} and {p} >= 0, {L}[{p}].key != {L}[b].key))"


LT, LK = LASTI(OUT, f"len({OUT})", "TIME_SIGNATURE"), LASTI(OUT, f"len({OUT})", "KEY_SIGNATURE")
SIG_INV = [("ts_in_force", f"implies({LT} < 0, is_none(current_ts_numerator) and is_none(current_ts_denominator))"
                           f" and implies({LT} >= 0, not is_none(current_ts_numerator) and not is_none(current_ts_denominator)"
                           f" and current_ts_numerator == {OUT}[{LT}].numerator and current_ts_denominator == {OUT}[{LT}].denominator)"),
           ("ks_in_force", f"implies({LK} < 0, is_none(current_key)) and implies({LK} >= 0, not is_none(current_key) and current_key == {OUT}[{LK}].key)"),
           ("ts_dedupe", TSD(OUT)), ("ks_dedupe", KSD(OUT)),
           # ... and it is the signature in force in the consumed input prefix: a signature that differs from the one in force is never dropped
           ("ts_follows_input", f"implies({LASTI(M, 'i', 'TIME_SIGNATURE')} < 0, is_none(current_ts_numerator))"
                                f" and implies({LASTI(M, 'i', 'TIME_SIGNATURE')} >= 0, current_ts_numerator == {M}[{LASTI(M, 'i', 'TIME_SIGNATURE')}].numerator"
                                f" and current_ts_denominator == {M}[{LASTI(M, 'i', 'TIME_SIGNATURE')}].denominator)"),
           ("ks_follows_input", f"implies({LASTI(M, 'i', 'KEY_SIGNATURE')} < 0, is_none(current_key))"
                                f" and implies({LASTI(M, 'i', 'KEY_SIGNATURE')} >= 0, current_key == {M}[{LASTI(M, 'i', 'KEY_SIGNATURE')}].key)")]
LMT, LMK = LASTI(M, f"len({M})", "TIME_SIGNATURE"), LASTI(M, f"len({M})", "KEY_SIGNATURE")
IN_FORCE_KEPT = (f"implies({LMT} >= 0, {LT} >= 0 and {OUT}[{LT}].numerator == {M}[{LMT}].numerator and {OUT}[{LT}].denominator == {M}[{LMT}].denominator)"
                 f" and implies({LMK} >= 0, {LK} >= 0 and {OUT}[{LK}].key == {M}[{LMK}].key)")
contract("RelativeSequence.normalise_relative", params={"self": "ref:RelativeSequence"}, allocates=True,
         asserts=[("repeated_signatures_dropped", "for channel in open_messages.keys()", TSD(OUT) + " and " + KSD(OUT)),
                  ("signature_in_force_kept", "for channel in open_messages.keys()", IN_FORCE_KEPT)],
         requires=[WF_REL()],
         local_types={"open_messages": "absdict:absdict:list:ref:Message", OUT: "list:ref:Message"},
         dict_inv={"open_messages": "lambda v: forall(0, len(v), lambda q: not is_none(v[q].message_type) and v[q].message_type == MessageType.NOTE_ON)"},
         modifies={"_messages": "[self]"},
         ensures=[("duration_unchanged", f"wsum({M}, len({M})) == old(wsum({M}, len({M})))"),
                  ("wf", WF_REL() + f" and fresh({M})")],
         loops={
             "L0": dict(fingerprint="for msg in self._messages", inv=NORM_INV + [
                 ("duration", f"{NORM_DUR} + wait_buffer == wsum({M}, i) and wait_buffer >= 0"),
                 ("unvisited", f"forall(0, len({OUT}), lambda a: forall(i, len({M}), lambda b: {OUT}[a] != {M}[b]))")] + SIG_INV),
             "L1": dict(fingerprint="for channel in open_messages.keys()", inv=NORM_INV + [("duration", f"{NORM_DUR} == entry({NORM_DUR})")]),
             "L2": dict(fingerprint="for key in open_messages[channel].keys()", inv=NORM_INV + [("duration", f"{NORM_DUR} == entry({NORM_DUR})")]),
             "L3": dict(fingerprint="for msg in note_list", inv=NORM_INV + [("duration", f"{NORM_DUR} == entry({NORM_DUR})")]),
         },
         props=["C07", "C04", "C16"])

# ---------------------------------------------------------------- split (C08: source untouched, piece count; C16: pieces are built from fresh objects only)
FRESHL = lambda L: f"allocated({L}) and fresh({L}) and forall(0, len({L}), lambda w: fresh({L}[w]) and allocated({L}[w]) and not is_none({L}[w]))"
FRESHSEQ = lambda s: f"not is_none({s}) and allocated({s}) and fresh({s}) and {FRESHL(s + '._messages')}"
PIECES = lambda L: f"allocated({L}) and fresh({L}) and forall(0, len({L}), lambda p: {FRESHSEQ(L + '[p]')})"
SEP = ("split_sequences != working_memory and split_sequences != current_sequence._messages and working_memory != current_sequence._messages"
       " and forall(0, len(split_sequences), lambda p: split_sequences[p]._messages != split_sequences)")
SEP_IN = ("split_sequences != next_sequence_queue and split_sequences != next_sequence._messages and working_memory != next_sequence_queue"
          " and working_memory != next_sequence._messages")
WAITS_TIMED = lambda L: f"forall(0, len({L}), lambda w: not is_none({L}[w].message_type) and implies({IS(L + '[w]', 'WAIT')}, not is_none({L}[w].time)))"
SPLIT_INV = [("memory", FRESHL("working_memory")), ("memory_waits_timed", WAITS_TIMED("working_memory")), ("current", FRESHSEQ("current_sequence")), ("pieces", PIECES("split_sequences")), ("separate", SEP)]
contract("RelativeSequence.split", params={"self": "ref:RelativeSequence", "capacities": "list:int"}, result="list:ref:RelativeSequence", allocates=True,
         requires=[f"forall(0, len({M}), lambda w: not is_none({M}[w].message_type) and implies({IS(M + '[w]', 'WAIT')}, not is_none({M}[w].time)))"],
         local_types={"open_messages": "absdict:ref:Message", "split_sequences": "list:ref:RelativeSequence", "next_sequence_queue": "list:ref:Message"},
         dict_inv={"open_messages": "lambda v: not is_none(v)"},
         modifies={},
         ensures=[("pieces_are_fresh", PIECES("result")),
                  ("at_most_one_more_than_capacities", "len(result) <= len(capacities) + 1")],
         loops={
             "L0": dict(fingerprint="for msg in self._messages", inv=[("built", f"len(_comp0) == i and {FRESHL('_comp0')}"),
                                                                         ("typed", f"forall(0, i, lambda w: not is_none(_comp0[w].message_type) and implies({IS('_comp0[w]', 'WAIT')}, not is_none(_comp0[w].time)))")]),
             "L1": dict(fingerprint="for capacity in capacities", inv=SPLIT_INV + [("count", "len(split_sequences) <= i")]),
             "L2": dict(fingerprint="while remaining_capacity >= 0", dec="len(working_memory)", inv=SPLIT_INV + [
                 ("next", FRESHSEQ("next_sequence")), ("queue", FRESHL("next_sequence_queue")), ("queue_waits_timed", WAITS_TIMED("next_sequence_queue")), ("separate_inner", SEP_IN), ("count", "len(split_sequences) <= loop_index('L1')")]),
             "L3": dict(fingerprint="for (key, value) in open_messages.items()", inv=SPLIT_INV + [
                 ("next", FRESHSEQ("next_sequence")), ("queue", FRESHL("next_sequence_queue")), ("queue_waits_timed", WAITS_TIMED("next_sequence_queue")), ("separate_inner", SEP_IN), ("count", "len(split_sequences) <= loop_index('L1')")]),
         },
         props=["C08", "C16"])

# ---------------------------------------------------------------- get_sequence_duration_relation (C10)
contract("RelativeSequence.get_sequence_duration_relation", params={"self": "ref:RelativeSequence"}, result="real",
         requires=[WF_REL()], modifies={},
         ensures=[("duration_in_quarters", f"result * PPQN == wsum({M}, len({M}))")],
         loops={"L0": dict(fingerprint="for msg in self._messages", inv=[("sum", f"duration == wsum({M}, i)")])},
         props=["C10"])
