from .registry import CONTRACTS, LEMMAS, SPECFUNS, BOUNDED
from .schema import SCHEMA
from . import music          # C20, C14.b, C19 (cof)
from . import util, relative
from . import lemmas
from . import message
from . import absolute
from . import sequence
from . import tokeniser
from . import midi
from . import elements
