"""scoda/tokenisation/notelike_tokenisation.py  (C19, C01, C02, C03)

Specification vocabulary (written from the property statements, independent of the code):
  tok_ok(self, t)         -- t is a vocabulary token of this configuration (structure + ranges)
  dfold(self, toks, k, c) -- component c of the abstract decoder state after the first k tokens (left fold of `dstep`)
  dnote(self, toks, k, c) -- component c of the note that token k decodes to (defined when is_note_tok(toks[k]))
"""
import z3
from .registry import contract, specfun, lemma
from .macros import *
from pyvc.values import *
from pyvc.tokens import Token, TokV, tok_dec, tok_enc, enc_axioms

TK = "MultiTrackLargeVocabularyNotelikeTokeniser"
COMPS = ("time", "time_bar", "cap_total", "cap_rem", "trk", "val", "vel")


def _tokterm(v):
    if isinstance(v, TokV):
        return v.term
    if isinstance(v, StrV):
        from pyvc.tokens import tok_of_str
        return tok_of_str(v)
    raise VCError(f"not a token: {v!r}")


def _cap(X, st, selfv, n, d):
    """bar capacity: the property's  ppqn * 4 * n / d  truncated -- built through the executor's own arithmetic so that it is
    the same term the code computes (FLOAT-EXACT)"""
    st2 = st.cp()
    st2.heap = dict(st.meta.get("old_heap", st.heap))
    st2.env = {"self": selfv, "n__": Num(n), "d__": Num(d)}
    import ast
    return X.ev(ast.parse("int(self.ppqn * 4 * n__ / d__)", mode="eval").body, st2).v


def _member(X, st, lst, x):
    k = fresh("k")
    return z3.Exists([k], z3.And(0 <= k, k < X.llen(st, lst), st.heap["@el"][lst.v][k] == x))


@specfun
def tok_ok(X, st, e):
    selfv = X.ev(e.args[0], st)
    t = _tokterm(X.ev(e.args[1], st))
    f = lambda name: X.read_field(st, selfv, name)
    steps, values, bins = f("step_sizes"), f("note_values"), f("velocity_bins")
    ft, fv, fw = f("flag_fuse_track").v, f("flag_fuse_value").v, f("flag_fuse_velocity").v
    nt = f("num_tracks").v
    pr, tr = f("pitch_range"), f("time_signature_range")
    el = lambda L, i: st.heap["@el"][L.v][i]
    ok_note = z3.And(Token.n_ft(t) == ft, z3.Implies(ft, z3.And(0 <= Token.n_t(t), Token.n_t(t) < nt)),
                     el(pr, 0) <= Token.n_p(t), Token.n_p(t) <= el(pr, 1),
                     Token.n_fv(t) == fv, z3.Implies(fv, _member(X, st, values, Token.n_v(t))),
                     Token.n_fw(t) == fw, z3.Implies(fw, _member(X, st, bins, Token.n_w(t))))
    r = z3.Or(Token.is_pad(t), Token.is_sta(t), Token.is_sto(t), Token.is_bar(t),
              z3.And(Token.is_rst(t), _member(X, st, steps, Token.rst_v(t))),
              z3.And(Token.is_trk(t), z3.Not(ft), 0 <= Token.trk_t(t), Token.trk_t(t) < nt),
              z3.And(Token.is_val(t), z3.Not(fv), _member(X, st, values, Token.val_v(t))),
              z3.And(Token.is_vel(t), z3.Not(fw), _member(X, st, bins, Token.vel_v(t))),
              z3.And(Token.is_tsg(t), Token.tsg_d(t) == 8, el(tr, 0) <= Token.tsg_n(t), Token.tsg_n(t) <= el(tr, 1)),
              z3.And(Token.is_note(t), ok_note))
    return BoolV(r)


@specfun
def is_note_tok(X, st, e):
    return BoolV(Token.is_note(_tokterm(X.ev(e.args[0], st))))


@specfun
def tok_pitch(X, st, e):
    return Num(Token.n_p(_tokterm(X.ev(e.args[0], st))))


def _fold(X, st, selfv, toks):
    """the 7 component functions of the decoder fold over `toks`, with their recursion axioms"""
    # the fold is over the content the list had in the ENTRY state of the function under verification (named heap, see
    # DESIGN 2.7 lesson 3); the code's reads of tokens[i] are related to it by the frame invariant on lists
    h0 = st.meta.get("old_heap", st.heap)
    el = h0["@el"][toks.v]
    cache = X.__dict__.setdefault("_dfold", {})
    key = (el.get_id(), selfv.v.get_id(), h0["ppqn"].get_id())
    if key in cache:
        return cache[key]
    F = {c: z3.Function(f"D_{c}{len(cache)}", I, I) for c in COMPS}
    k = z3.Int("k!df")
    t = tok_dec(el[k])
    T, TB, CT, CR, TR, VA, VE = (F[c](k) for c in COMPS)
    capn = _cap(X, st, selfv, Token.tsg_n(t), Token.tsg_d(t))
    isn = Token.is_note(t)
    nxt = {
        "time": z3.If(Token.is_bar(t), T + CR, z3.If(Token.is_rst(t), T + Token.rst_v(t), T)),
        "time_bar": z3.If(Token.is_bar(t), 0, z3.If(Token.is_rst(t), TB + Token.rst_v(t), TB)),
        "cap_total": z3.If(z3.And(Token.is_tsg(t), TB <= 0), capn, CT),
        "cap_rem": z3.If(Token.is_bar(t), CT, z3.If(Token.is_rst(t), CR - Token.rst_v(t), z3.If(z3.And(Token.is_tsg(t), TB <= 0), capn, CR))),
        "trk": z3.If(Token.is_trk(t), Token.trk_t(t), z3.If(z3.And(isn, Token.n_ft(t)), Token.n_t(t), TR)),
        "val": z3.If(Token.is_val(t), Token.val_v(t), z3.If(z3.And(isn, Token.n_fv(t)), Token.n_v(t), VA)),
        "vel": z3.If(Token.is_vel(t), Token.vel_v(t), z3.If(z3.And(isn, Token.n_fw(t)), Token.n_w(t), VE)),
    }
    cap0 = _cap(X, st, selfv, z3.IntVal(X.ctx.consts["settings"]["DEFAULT_TIME_SIGNATURE_NUMERATOR"]), z3.IntVal(X.ctx.consts["settings"]["DEFAULT_TIME_SIGNATURE_DENOMINATOR"]))
    init = {"time": 0, "time_bar": 0, "cap_total": cap0, "cap_rem": cap0, "trk": 0, "val": 24, "vel": 127}
    ax = [F[c](0) == init[c] for c in COMPS]
    ax += [safe_forall([k], z3.Implies(k >= 0, F[c](k + 1) == nxt[c]), patterns=[F[c](k + 1)]) for c in COMPS]
    ax += enc_axioms()
    cache[key] = (F, ax)
    X.notes.append("spec: dfold = left fold of the property-level decoder step over the token list (recursion axioms)")
    return cache[key]


def _use(st, ax):
    have = {p.get_id() for p in st.pc}
    for a in ax:
        if a.get_id() not in have:
            st.pc.append(a)


@specfun
def dfold(X, st, e):
    selfv, toks, k = X.ev(e.args[0], st), X.ev(e.args[1], st), X.ev(e.args[2], st)
    comp = e.args[3].value
    F, ax = _fold(X, st, selfv, toks)
    _use(st, ax)
    return Num(F[comp](k.v))


@specfun
def dnote(X, st, e):
    """what the note token at position k decodes to: ('trk'|'val'|'vel') after merging its fused parts into the running values"""
    selfv, toks, k = X.ev(e.args[0], st), X.ev(e.args[1], st), X.ev(e.args[2], st)
    comp = e.args[3].value
    F, ax = _fold(X, st, selfv, toks)
    _use(st, ax)
    return Num(F[comp](k.v + 1))       # the running values after the token are the note's own


# ---------------------------------------------------------------------------------------------- get_info  (C19)
TOKS_OK = "forall(0, len(tokens), lambda q: tok_ok(self, tokens[q]))"
CFG_OK = ("self.ppqn > 0 and len(self.pitch_range) == 2 and len(self.time_signature_range) == 2 and self.time_signature_range[0] >= 1"
          " and forall(0, len(self.step_sizes), lambda q: self.step_sizes[q] > 0)")
INFO = ("info_pos", "info_time", "info_time_bar", "info_pitch", "info_cof")
contract(f"{TK}.get_info", params={"self": f"ref:{TK}", "tokens": "list:tok", "flag_impute_values": "bool"}, allocates=True,
         requires=[TOKS_OK, CFG_OK],
         modifies={},
         ensures=[("one_entry_per_token", " and ".join(f"len(result['{k}']) == len(tokens)" for k in ("info_position", "info_time", "info_time_bar", "info_pitch", "info_circle_of_fifths"))),
                  ("positions", "forall(0, len(tokens), lambda q: result['info_position'][q] == q)"),
                  ("time_is_decoder_clock", "forall(0, len(tokens), lambda q: result['info_time'][q] == dfold(self, tokens, q, 'time') and result['info_time_bar'][q] == dfold(self, tokens, q, 'time_bar'))"),
                  ("pitch_and_cof", "forall(0, len(tokens), lambda q: implies(is_note_tok(tokens[q]), result['info_pitch'][q] == tok_pitch(tokens[q]) and result['info_circle_of_fifths'][q] == cofpos(tok_pitch(tokens[q]) % 12)))")],
         loops={"L0": dict(fingerprint="for token in tokens", inv=[
             ("one_entry_per_token", " and ".join(f"len({x}) == i" for x in INFO) + " and cur_pos == i"),
             ("positions", "forall(0, i, lambda q: info_pos[q] == q)"),
             ("clock_is_fold", "cur_time == dfold(self, tokens, i, 'time') and cur_time_bar == dfold(self, tokens, i, 'time_bar')"
                               " and cur_bar_capacity_total == dfold(self, tokens, i, 'cap_total') and cur_bar_capacity_remaining == dfold(self, tokens, i, 'cap_rem')"),
             ("annotated_time", "forall(0, i, lambda q: info_time[q] == dfold(self, tokens, q, 'time') and info_time_bar[q] == dfold(self, tokens, q, 'time_bar'))"),
             ("annotated_pitch", "forall(0, i, lambda q: implies(is_note_tok(tokens[q]), info_pitch[q] == tok_pitch(tokens[q]) and info_cof[q] == cofpos(tok_pitch(tokens[q]) % 12)))"),
         ])},
         props=["C19"])

# ---------------------------------------------------------------------------------------------- detokenise  (C19.c, C02.d, C01.e/h)
SEQS_LIGHT = lambda L, n: f"len({L}) == {n} and forall(0, len({L}), lambda k: not is_none({L}[k]))"
CFG_DET = (CFG_OK + " and self.num_tracks >= 1 and forall(0, len(self.note_values), lambda q: self.note_values[q] >= 0)"
           " and forall(0, len(self.velocity_bins), lambda q: self.velocity_bins[q] >= 0) and self.pitch_range[0] >= 0")
CLOCK = ("cur_time == dfold(self, tokens, i, 'time') and cur_time_bar == dfold(self, tokens, i, 'time_bar')"
         " and cur_bar_capacity_total == dfold(self, tokens, i, 'cap_total') and cur_bar_capacity_remaining == dfold(self, tokens, i, 'cap_rem')"
         " and prv_track == dfold(self, tokens, i, 'trk') and prv_value == dfold(self, tokens, i, 'val') and prv_velocity == dfold(self, tokens, i, 'vel')")
SANE = "0 <= prv_track and prv_track < self.num_tracks"
IDX = "loop_index('L1')"
NOFRAME = {"@msgfields": "*", "@lists": "*", "_messages": "*", "_abs": "*", "_rel": "*", "_abs_stale": "*", "_rel_stale": "*"}
contract(f"{TK}.detokenise", params={"self": f"ref:{TK}", "tokens": "list:tok"}, result="list:ref:Sequence", allocates=True,
         requires=[TOKS_OK, CFG_DET],
         modifies=dict(NOFRAME),       # detokenise builds new sequences; no frame claim is made here (ownership is C16's business)
         assume_pre=["Sequence.add_absolute_message", "Sequence.__init__"],
         ensures=[("one_sequence_per_track", SEQS_LIGHT("result", "self.num_tracks"))],
         asserts=[("note_on_placed_at_decoder_clock", "sequences[prv_track].add_absolute_message(Message(message_type=MessageType.NOTE_ON",
                   f"cur_time == dfold(self, tokens, {IDX}, 'time') and note_pitch == tok_pitch(tokens[{IDX}]) and prv_track == dnote(self, tokens, {IDX}, 'trk')"
                   f" and prv_value == dnote(self, tokens, {IDX}, 'val') and prv_velocity == dnote(self, tokens, {IDX}, 'vel')")],
         loops={
             "L0": dict(fingerprint="for _ in range(self.num_tracks)", inv=[("built", "len(_comp0) == i and forall(0, i, lambda k: not is_none(_comp0[k]))")]),
             "L1": dict(fingerprint="for token in tokens", inv=[("clock_is_fold", CLOCK), ("sane", SANE), ("sequences", SEQS_LIGHT("sequences", "self.num_tracks"))]),
             "L3": dict(fingerprint="for sequence in sequences", inv=[("sequences", SEQS_LIGHT("sequences", "self.num_tracks")), ("clock_kept", "cur_time == entry(cur_time)")]),
         },
         props=["C19", "C02", "C01"])
