"""scoda/tokenisation/notelike_tokenisation.py  (C19, C01, C02, C03)

Specification vocabulary (written from the property statements, independent of the code):
  tok_ok(self, t)         -- t is a vocabulary token of this configuration (structure + ranges)
  dfold(self, toks, k, c) -- component c of the abstract decoder state after the first k tokens (left fold of `dstep`)
  dnote(self, toks, k, c) -- component c of the note that token k decodes to (defined when is_note_tok(toks[k]))
"""
import z3
from .registry import contract, specfun, lemma
from .macros import *
from pyvc.values import *
from pyvc.tokens import Token, TokV, tok_dec, tok_enc, enc_axioms

TK = "MultiTrackLargeVocabularyNotelikeTokeniser"
COMPS = ("time", "time_bar", "cap_total", "cap_rem", "trk", "val", "vel", "ok")     # ok: 1 while every token so far is a vocabulary token


def _tokterm(v):
    if isinstance(v, TokV):
        return v.term
    if isinstance(v, StrV):
        from pyvc.tokens import tok_of_str
        return tok_of_str(v)
    raise VCError(f"not a token: {v!r}")


def _cap(X, st, selfv, n, d):
    """bar capacity: the property's  ppqn * 4 * n / d  truncated -- built through the executor's own arithmetic so that it is
    the same term the code computes (FLOAT-EXACT)"""
    st2 = st.cp()
    st2.heap = dict(st.meta.get("old_heap", st.heap))
    st2.env = {"self": selfv, "n__": Num(n), "d__": Num(d)}
    import ast
    return X.ev(ast.parse("int(self.ppqn * 4 * n__ / d__)", mode="eval").body, st2).v


def _member(X, st, lst, x):
    k = fresh("k")
    return z3.Exists([k], z3.And(0 <= k, k < X.llen(st, lst), st.heap["@el"][lst.v][k] == x))


@specfun
def tok_ok(X, st, e):
    selfv = X.ev(e.args[0], st)
    t = _tokterm(X.ev(e.args[1], st))
    return BoolV(tok_ok_term(X, st, selfv, t))


def tok_ok_term(X, st, selfv, t):
    f = lambda name: X.read_field(st, selfv, name)
    steps, values, bins = f("step_sizes"), f("note_values"), f("velocity_bins")
    ft, fv, fw = f("flag_fuse_track").v, f("flag_fuse_value").v, f("flag_fuse_velocity").v
    nt = f("num_tracks").v
    pr, tr = f("pitch_range"), f("time_signature_range")
    el = lambda L, i: st.heap["@el"][L.v][i]
    ok_note = z3.And(Token.n_ft(t) == ft, z3.Implies(ft, z3.And(0 <= Token.n_t(t), Token.n_t(t) < nt)),
                     el(pr, 0) <= Token.n_p(t), Token.n_p(t) <= el(pr, 1),
                     Token.n_fv(t) == fv, z3.Implies(fv, _member(X, st, values, Token.n_v(t))),
                     Token.n_fw(t) == fw, z3.Implies(fw, _member(X, st, bins, Token.n_w(t))))
    r = z3.Or(Token.is_pad(t), Token.is_sta(t), Token.is_sto(t), Token.is_bar(t),
              z3.And(Token.is_rst(t), _member(X, st, steps, Token.rst_v(t))),
              z3.And(Token.is_trk(t), z3.Not(ft), 0 <= Token.trk_t(t), Token.trk_t(t) < nt),
              z3.And(Token.is_val(t), z3.Not(fv), _member(X, st, values, Token.val_v(t))),
              z3.And(Token.is_vel(t), z3.Not(fw), _member(X, st, bins, Token.vel_v(t))),
              z3.And(Token.is_tsg(t), Token.tsg_d(t) == 8, el(tr, 0) <= Token.tsg_n(t), Token.tsg_n(t) <= el(tr, 1)),
              z3.And(Token.is_note(t), ok_note))
    return r


@specfun
def is_note_tok(X, st, e):
    return BoolV(Token.is_note(_tokterm(X.ev(e.args[0], st))))


@specfun
def tok_pitch(X, st, e):
    return Num(Token.n_p(_tokterm(X.ev(e.args[0], st))))


def _fold(X, st, selfv, toks, current=False, init_env=None):
    """the 7 component functions of the decoder fold over `toks`, with their recursion axioms.
    current=False: over the content the list had in the ENTRY state (named heap, DESIGN 2.7 lesson 3);
    current=True : over its content in the state of evaluation (a list under construction) -- every pair of such folds gets the
                   instance of lemma dfold_ext (equal prefixes give equal folds), proved by induction in this file.
    init_env: ghost initial state (names g_time, ...) instead of the decoder's start state."""
    h0 = st.heap if current else st.meta.get("old_heap", st.heap)
    el = h0["@el"][toks.v]
    cache = X.__dict__.setdefault("_dfold", {})
    hp = st.meta.get("old_heap", st.heap)
    key = (el.get_id(), selfv.v.get_id(), hp["ppqn"].get_id(), bool(init_env))
    if key in cache:
        return cache[key][:2]
    F = {c: z3.Function(f"D_{c}{len(cache)}", I, I) for c in COMPS}
    k = z3.Int("k!df")

    def step(elarr, kk):
        t = tok_dec(elarr[kk])
        T, TB, CT, CR, TR, VA, VE, OKC = (F[c](kk) for c in COMPS)
        return t, (T, TB, CT, CR, TR, VA, VE, OKC)
    t, (T, TB, CT, CR, TR, VA, VE, OKC) = step(el, k)
    capn = _cap(X, st, selfv, Token.tsg_n(t), Token.tsg_d(t))
    isn = Token.is_note(t)
    nxt = {
        "time": z3.If(Token.is_bar(t), T + CR, z3.If(Token.is_rst(t), T + Token.rst_v(t), T)),
        "time_bar": z3.If(Token.is_bar(t), 0, z3.If(Token.is_rst(t), TB + Token.rst_v(t), TB)),
        "cap_total": z3.If(z3.And(Token.is_tsg(t), TB <= 0), capn, CT),
        "cap_rem": z3.If(Token.is_bar(t), CT, z3.If(Token.is_rst(t), CR - Token.rst_v(t), z3.If(z3.And(Token.is_tsg(t), TB <= 0), capn, CR))),
        "trk": z3.If(Token.is_trk(t), Token.trk_t(t), z3.If(z3.And(isn, Token.n_ft(t)), Token.n_t(t), TR)),
        "val": z3.If(Token.is_val(t), Token.val_v(t), z3.If(z3.And(isn, Token.n_fv(t)), Token.n_v(t), VA)),
        "vel": z3.If(Token.is_vel(t), Token.vel_v(t), z3.If(z3.And(isn, Token.n_fw(t)), Token.n_w(t), VE)),
    }
    st_cfg = st.cp()
    st_cfg.heap = dict(st.meta.get("old_heap", st.heap))        # the configuration is read in the entry state (it is read-only)
    nxt["ok"] = z3.If(z3.And(OKC == 1, tok_ok_term(X, st_cfg, selfv, t)), 1, 0)
    if init_env:
        init = {c: (init_env["g_" + c].v if c != "ok" else z3.IntVal(1)) for c in COMPS}
    else:
        cap0 = _cap(X, st, selfv, z3.IntVal(X.ctx.consts["settings"]["DEFAULT_TIME_SIGNATURE_NUMERATOR"]), z3.IntVal(X.ctx.consts["settings"]["DEFAULT_TIME_SIGNATURE_DENOMINATOR"]))
        init = {"time": 0, "time_bar": 0, "cap_total": cap0, "cap_rem": cap0, "trk": 0, "val": 24, "vel": 127, "ok": 1}
    ax = [F[c](0) == init[c] for c in COMPS]
    ax += [safe_forall([k], z3.Implies(k >= 0, F[c](k + 1) == nxt[c]), patterns=[F[c](k + 1)]) for c in COMPS]
    ax += enc_axioms()
    def inst(kt):
        """ground instance of the recursion at index kt: F(kt + 1) = step(F(kt), toks[kt])"""
        return [z3.Implies(kt >= 0, z3.substitute(F[c](k + 1) == nxt[c], (k, kt))) for c in COMPS]
    cache[key] = (F, ax, el, current)
    F["__inst__"] = inst
    F["__key__"] = key
    X.notes.append("spec: dfold = left fold of the property-level decoder step over the token list (recursion axioms)")
    return cache[key][:2]


def _pair_axioms(X, st, F):
    """instances of lemma dfold_ext between fold F and every other fold over a list under construction that THIS state already
    talks about (equal prefixes give equal folds)"""
    cache = X.__dict__.setdefault("_dfold", {})
    pairs = X.__dict__.setdefault("_dfold_pairs", {})
    key = F["__key__"]
    _, ax, el, current = cache[key]
    if not current:
        return []
    have = {p.get_id() for p in st.pc}
    out = []
    n, j = z3.Int("n!df"), z3.Int("j!df")
    for okey, (G, gax, gel, gcur) in list(cache.items()):
        if not gcur or okey == key or okey[1:] != key[1:] or gax[len(COMPS)].get_id() not in have:
            continue
        pk = (okey, key) if okey[0] < key[0] else (key, okey)
        if pk not in pairs:
            pax = []
            for (A, elA, Bf, elB) in ((G, gel, F, el), (F, el, G, gel)):
                hyp = safe_forall([j], z3.Implies(z3.And(0 <= j, j < n), elA[j] == elB[j]))
                concl = z3.And([Bf[c](n) == A[c](n) for c in COMPS])
                pax.append(safe_forall([n], z3.Implies(z3.And(n >= 0, hyp), concl), patterns=[A["time"](n)]))
            pairs[pk] = pax
            X.notes.append("L: instances of lemma dfold_ext relate the decoder folds of a token list under construction")
        out += pairs[pk]
    return out


def _use(st, ax):
    have = {p.get_id() for p in st.pc}
    for a in ax:
        if a.get_id() not in have:
            st.pc.append(a)


@specfun
def dfold(X, st, e):
    selfv, toks, k = X.ev(e.args[0], st), X.ev(e.args[1], st), X.ev(e.args[2], st)
    comp = e.args[3].value
    F, ax = _fold(X, st, selfv, toks)
    _use(st, ax)
    return Num(F[comp](k.v))


@specfun
def dnote(X, st, e):
    """what the note token at position k decodes to: ('trk'|'val'|'vel') after merging its fused parts into the running values"""
    selfv, toks, k = X.ev(e.args[0], st), X.ev(e.args[1], st), X.ev(e.args[2], st)
    comp = e.args[3].value
    F, ax = _fold(X, st, selfv, toks)
    _use(st, ax)
    return Num(F[comp](k.v + 1))       # the running values after the token are the note's own


# ---------------------------------------------------------------------------------------------- get_info  (C19)
TOKS_OK = "forall(0, len(tokens), lambda q: tok_ok(self, tokens[q]))"
CFG_OK = ("self.ppqn > 0 and len(self.pitch_range) == 2 and len(self.time_signature_range) == 2 and self.time_signature_range[0] >= 1"
          " and forall(0, len(self.step_sizes), lambda q: self.step_sizes[q] > 0)")
INFO = ("info_pos", "info_time", "info_time_bar", "info_pitch", "info_cof")
contract(f"{TK}.get_info", params={"self": f"ref:{TK}", "tokens": "list:tok", "flag_impute_values": "bool"}, allocates=True,
         requires=[TOKS_OK, CFG_OK],
         modifies={},
         ensures=[("one_entry_per_token", " and ".join(f"len(result['{k}']) == len(tokens)" for k in ("info_position", "info_time", "info_time_bar", "info_pitch", "info_circle_of_fifths"))),
                  ("positions", "forall(0, len(tokens), lambda q: result['info_position'][q] == q)"),
                  ("time_is_decoder_clock", "forall(0, len(tokens), lambda q: result['info_time'][q] == dfold(self, tokens, q, 'time') and result['info_time_bar'][q] == dfold(self, tokens, q, 'time_bar'))"),
                  ("pitch_and_cof", "forall(0, len(tokens), lambda q: implies(is_note_tok(tokens[q]), result['info_pitch'][q] == tok_pitch(tokens[q]) and result['info_circle_of_fifths'][q] == cofpos(tok_pitch(tokens[q]) % 12)))")],
         loops={"L0": dict(fingerprint="for token in tokens", inv=[
             ("one_entry_per_token", " and ".join(f"len({x}) == i" for x in INFO) + " and cur_pos == i"),
             ("positions", "forall(0, i, lambda q: info_pos[q] == q)"),
             ("clock_is_fold", "cur_time == dfold(self, tokens, i, 'time') and cur_time_bar == dfold(self, tokens, i, 'time_bar')"
                               " and cur_bar_capacity_total == dfold(self, tokens, i, 'cap_total') and cur_bar_capacity_remaining == dfold(self, tokens, i, 'cap_rem')"),
             ("annotated_time", "forall(0, i, lambda q: info_time[q] == dfold(self, tokens, q, 'time') and info_time_bar[q] == dfold(self, tokens, q, 'time_bar'))"),
             ("annotated_pitch", "forall(0, i, lambda q: implies(is_note_tok(tokens[q]), info_pitch[q] == tok_pitch(tokens[q]) and info_cof[q] == cofpos(tok_pitch(tokens[q]) % 12)))"),
         ])},
         props=["C19"])

# ---------------------------------------------------------------------------------------------- detokenise  (C19.c, C02.d, C01.e/h)
SEQS_LIGHT = lambda L, n: f"len({L}) == {n} and forall(0, len({L}), lambda k: not is_none({L}[k]))"
CFG_DET = (CFG_OK + " and self.num_tracks >= 1 and forall(0, len(self.note_values), lambda q: self.note_values[q] >= 0)"
           " and forall(0, len(self.velocity_bins), lambda q: self.velocity_bins[q] >= 0) and self.pitch_range[0] >= 0")
CLOCK = ("cur_time == dfold(self, tokens, i, 'time') and cur_time_bar == dfold(self, tokens, i, 'time_bar')"
         " and cur_bar_capacity_total == dfold(self, tokens, i, 'cap_total') and cur_bar_capacity_remaining == dfold(self, tokens, i, 'cap_rem')"
         " and prv_track == dfold(self, tokens, i, 'trk') and prv_value == dfold(self, tokens, i, 'val') and prv_velocity == dfold(self, tokens, i, 'vel')")
SANE = "0 <= prv_track and prv_track < self.num_tracks"
IDX = "loop_index('L1')"
NOFRAME = {"@msgfields": "*", "@lists": "*", "_messages": "*", "_abs": "*", "_rel": "*", "_abs_stale": "*", "_rel_stale": "*"}
contract(f"{TK}.detokenise", params={"self": f"ref:{TK}", "tokens": "list:tok"}, result="list:ref:Sequence", allocates=True,
         requires=[TOKS_OK, CFG_DET],
         modifies=dict(NOFRAME),       # detokenise builds new sequences; no frame claim is made here (ownership is C16's business)
         assume_pre=["Sequence.add_absolute_message", "Sequence.__init__"],
         ensures=[("one_sequence_per_track", SEQS_LIGHT("result", "self.num_tracks"))],
         asserts=[("note_on_placed_at_decoder_clock", "sequences[prv_track].add_absolute_message(Message(message_type=MessageType.NOTE_ON",
                   f"cur_time == dfold(self, tokens, {IDX}, 'time') and note_pitch == tok_pitch(tokens[{IDX}]) and prv_track == dnote(self, tokens, {IDX}, 'trk')"
                   f" and prv_value == dnote(self, tokens, {IDX}, 'val') and prv_velocity == dnote(self, tokens, {IDX}, 'vel')")],
         loops={
             "L0": dict(fingerprint="for _ in range(self.num_tracks)", inv=[("built", "len(_comp0) == i and forall(0, i, lambda k: not is_none(_comp0[k]))")]),
             "L1": dict(fingerprint="for token in tokens", inv=[("clock_is_fold", CLOCK), ("sane", SANE), ("sequences", SEQS_LIGHT("sequences", "self.num_tracks"))]),
             "L3": dict(fingerprint="for sequence in sequences", inv=[("sequences", SEQS_LIGHT("sequences", "self.num_tracks")), ("clock_kept", "cur_time == entry(cur_time)")]),
         },
         props=["C19", "C02", "C01"])


@specfun
def dfold_g(X, st, e):
    """decoder fold over the CURRENT content of a token list, started from the ghost state g_* (the state the previous calls left)"""
    selfv, toks, k = X.ev(e.args[0], st), X.ev(e.args[1], st), X.ev(e.args[2], st)
    comp = e.args[3].value
    genv = st.meta.get("old_env", st.env)
    F, ax = _fold(X, st, selfv, toks, current=True, init_env={n: genv[n] for n in genv if n.startswith("g_")})
    if ax[len(COMPS)].get_id() not in {p.get_id() for p in st.pc}:
        _use(st, _pair_axioms(X, st, F))
    _use(st, ax)
    # E-matching cannot see that F(n + 2) is F((n + 1) + 1): the last few unfoldings below the queried index are given as ground facts
    ks = z3.simplify(k.v)
    done = st.meta.setdefault("_dfold_inst", set())
    for back in (1, 2, 3, 4):
        kt = z3.simplify(ks - back)
        tag = (id(F), kt.get_id())
        if tag not in done:
            done.add(tag)
            _use(st, F["__inst__"](kt))
    return Num(F[comp](k.v))


@lemma("dfold_ext", ["C01", "C03", "C19"])
def dfold_ext(ctx):
    """two decoder folds with the same start state over token arrays that agree on [0, n) agree on [0, n]  (induction on k;
    the bar-capacity function is abstract here, so the lemma covers every configuration)"""
    A, Bq = z3.Array("A", I, I), z3.Array("B", I, I)
    cap = z3.Function("cap", I, I, I)
    okp = z3.Function("okp", Token, B)
    FA = {c: z3.Function("FA_" + c, I, I) for c in COMPS}
    FB = {c: z3.Function("FB_" + c, I, I) for c in COMPS}
    k, n, b = z3.Ints("k n b")

    def axioms(F, arr):
        t = tok_dec(arr[k])
        T, TB, CT, CR, TR, VA, VE, OKC = (F[c](k) for c in COMPS)
        capn = cap(Token.tsg_n(t), Token.tsg_d(t))
        isn = Token.is_note(t)
        nxt = {"time": z3.If(Token.is_bar(t), T + CR, z3.If(Token.is_rst(t), T + Token.rst_v(t), T)),
               "time_bar": z3.If(Token.is_bar(t), 0, z3.If(Token.is_rst(t), TB + Token.rst_v(t), TB)),
               "cap_total": z3.If(z3.And(Token.is_tsg(t), TB <= 0), capn, CT),
               "cap_rem": z3.If(Token.is_bar(t), CT, z3.If(Token.is_rst(t), CR - Token.rst_v(t), z3.If(z3.And(Token.is_tsg(t), TB <= 0), capn, CR))),
               "trk": z3.If(Token.is_trk(t), Token.trk_t(t), z3.If(z3.And(isn, Token.n_ft(t)), Token.n_t(t), TR)),
               "val": z3.If(Token.is_val(t), Token.val_v(t), z3.If(z3.And(isn, Token.n_fv(t)), Token.n_v(t), VA)),
               "vel": z3.If(Token.is_vel(t), Token.vel_v(t), z3.If(z3.And(isn, Token.n_fw(t)), Token.n_w(t), VE)),
               "ok": z3.If(z3.And(OKC == 1, okp(t)), 1, 0)}
        return [z3.ForAll([k], z3.Implies(k >= 0, F[c](k + 1) == nxt[c]), patterns=[F[c](k + 1)]) for c in COMPS]
    j = z3.Int("j")
    ax = axioms(FA, A) + axioms(FB, Bq) + [FA[c](0) == FB[c](0) for c in COMPS] + [z3.ForAll([j], z3.Implies(z3.And(0 <= j, j < n), A[j] == Bq[j]))]
    same = lambda x: z3.And([FA[c](x) == FB[c](x) for c in COMPS])
    return [("base", ax, same(z3.IntVal(0)), "k = 0"), ("step", ax + [0 <= b, b < n, same(b)], same(b + 1), "k -> k+1")]


@specfun
def cap_equal_lemma(X, st, e):
    """instance of lemma tdiv_frac for bar capacities: a signature n/d and its eighth-note form s/8 with s*d == 8*n give the same
    capacity int(ppqn*4*n/d) == int(ppqn*4*s/8)"""
    selfv = X.ev(e.args[0], st)
    n, d, s_ = (X.ev(a, st).v for a in e.args[1:4])
    st0 = st.cp()
    st0.meta = dict(st.meta)
    st0.meta.pop("old_heap", None)
    d8 = fresh("d8")
    # the eighth-note capacity is written with a symbolic denominator first, so that it is the same term the decoder fold unfolds to
    c1, c2 = _cap(X, st0, selfv, n, d), z3.substitute(_cap(X, st0, selfv, s_, d8), (d8, z3.IntVal(8)))
    ppqn = X.read_field(st, selfv, "ppqn").v
    exact = z3.Implies(z3.And(d > 0, (8 * n) % d == 0, s_ == (8 * n) / d), s_ * d == 8 * n)        # instance of lemma exact_div
    return BoolV(z3.And(exact, z3.Implies(z3.And(s_ * d == 8 * n, d > 0, n >= 0, s_ >= 0, ppqn > 0), c1 == c2)))


@specfun
def sget(X, st, e):
    """state_dict.get(key, default) for an optional dict"""
    d = X.ev(e.args[0], st)
    key = e.args[1].value
    default = X.ev(e.args[2], st)
    if isinstance(d, NoneV):
        return default
    ent = d.get(key)
    if ent is None:
        return default
    pres = ent[0]
    if d.none is not None:
        pres = z3.And(z3.Not(d.none), pres)
    return X.ite(pres, ent[1], default)


# ---------------------------------------------------------------------------------------------- bin_velocity / front end (A)
contract("bin_velocity", params={"velocity": "int", "bins": "list:int?"}, result="int", pure=True, trusted=True,
         note="numpy.digitize(v, bins, right=True) on an increasing list: the least index i with v <= bins[i] (len(bins) if none)",
         requires=["not is_none(bins)"],
         ensures=[("index", "0 <= result and result <= len(bins)"),
                  ("least", "implies(result < len(bins), velocity <= bins[result]) and implies(result > 0, bins[result - 1] < velocity)")],
         props=["C01", "C02"])

FIRST = "result[k].g_msgs[0]"
contract("Sequence.get_interleaved_message_pairings", params={"self": "ref:Sequence", "message_types": "list:int?", "standard_length": "int", "impute_notes": "bool"},
         result="list:ref:Pairing", allocates="keep_fields", trusted=True,
         note="front end of tokenise (C01.d): after set_channel(i) / merge, the interleaved pairings are the piece's notes (NOTE_ON, NOTE_OFF) in onset order, its time signatures and the end markers; validated by the bounded tier",
         requires=[], modifies=dict({"@msgfields": "*", "@lists": "*", "_messages": "*", "_abs": "*", "_rel": "*", "_abs_stale": "*", "_rel_stale": "*"}),
         ensures=[("pairings", f"forall(0, len(result), lambda k: not is_none(result[k]) and len(result[k].g_msgs) >= 1 and not is_none({FIRST}.message_type)"
                               f" and ({FIRST}.message_type == MessageType.NOTE_ON or {FIRST}.message_type == MessageType.TIME_SIGNATURE or {FIRST}.message_type == MessageType.INTERNAL)"
                               f" and not is_none(result[k].g_channel) and {FIRST}.channel == result[k].g_channel and not is_none({FIRST}.channel)"
                               f" and not is_none({FIRST}.time) and {FIRST}.time >= 0"
                               f" and implies({FIRST}.message_type == MessageType.NOTE_ON, len(result[k].g_msgs) == 2 and not is_none({FIRST}.note) and not is_none({FIRST}.velocity) and 0 <= {FIRST}.velocity and {FIRST}.velocity <= 127"
                               f"             and not is_none(result[k].g_msgs[1].time) and result[k].g_msgs[1].time >= {FIRST}.time and 0 <= result[k].g_channel)"
                               f" and implies({FIRST}.message_type == MessageType.TIME_SIGNATURE, not is_none({FIRST}.numerator) and not is_none({FIRST}.denominator) and {FIRST}.numerator >= 0 and {FIRST}.denominator > 0))"),
                  ("onset_order", "forall(0, len(result), lambda a: forall(a, len(result), lambda b: result[a].g_msgs[0].time <= result[b].g_msgs[0].time))")],
         props=["C01", "C02", "C03"])
contract("Sequence.merge", params={"self": "ref:Sequence", "sequences": "list:ref:Sequence"}, allocates=True, trusted=True,
         note="wrapper over AbsoluteSequence.merge + normalise; its effect on the music is C15 (bounded)", requires=[],
         modifies=dict({"@msgfields": "*", "@lists": "*", "_messages": "*", "_abs": "*", "_rel": "*", "_abs_stale": "*", "_rel_stale": "*"}), ensures=[], props=["C01"])

# ---------------------------------------------------------------------------------------------- tokenise  (C01.a/b/h, C02.c, C03.a)
SD_KEYS = "cur_time,cur_time_bar,cur_time_signature_numerator,cur_time_signature_denominator,cur_bar_capacity_remaining,prv_track,prv_value,prv_velocity"
N0, D0 = "DEFAULT_TIME_SIGNATURE_NUMERATOR", "DEFAULT_TIME_SIGNATURE_DENOMINATOR"
CAP_IN = f"int(self.ppqn * 4 * sget(state_dict, 'cur_time_signature_numerator', {N0}) / sget(state_dict, 'cur_time_signature_denominator', {D0}))"
STATE_IN = (f"sget(state_dict, 'cur_time', 0) == g_time and sget(state_dict, 'cur_time_bar', 0) == g_time_bar and {CAP_IN} == g_cap_total"
            f" and sget(state_dict, 'cur_bar_capacity_remaining', {CAP_IN}) == g_cap_rem"
            " and (sget(state_dict, 'prv_track', -1) == -1 or sget(state_dict, 'prv_track', -1) == g_trk)"
            " and (sget(state_dict, 'prv_value', -1) == -1 or sget(state_dict, 'prv_value', -1) == g_val)"
            " and (sget(state_dict, 'prv_velocity', -1) == -1 or sget(state_dict, 'prv_velocity', -1) == g_vel)"
            f" and sget(state_dict, 'cur_time_signature_denominator', {D0}) > 0 and sget(state_dict, 'cur_time_signature_numerator', {N0}) >= 0 and g_time >= 0")
TOKS = "tokens"
TOK_INV = f"dfold_g(self, {TOKS}, len({TOKS}), 'ok') == 1"
CLOCK_G = (f"cur_time == dfold_g(self, {TOKS}, len({TOKS}), 'time') and cur_time_bar == dfold_g(self, {TOKS}, len({TOKS}), 'time_bar')"
           f" and cur_bar_capacity_total == dfold_g(self, {TOKS}, len({TOKS}), 'cap_total') and cur_bar_capacity_remaining == dfold_g(self, {TOKS}, len({TOKS}), 'cap_rem')")
RUN_G = (f"(prv_track == -1 or prv_track == dfold_g(self, {TOKS}, len({TOKS}), 'trk')) and (prv_value == -1 or prv_value == dfold_g(self, {TOKS}, len({TOKS}), 'val'))"
         f" and (prv_velocity == -1 or prv_velocity == dfold_g(self, {TOKS}, len({TOKS}), 'vel'))")
CFG_TOK = (CFG_OK + " and self.num_tracks >= 1 and self.num_tracks <= 100 and len(self.step_sizes) >= 1 and len(self.velocity_bins) >= 1"
           " and forall(0, len(self.note_values), lambda q: self.note_values[q] >= 0) and forall(0, len(self.velocity_bins), lambda q: self.velocity_bins[q] >= 0) and self.pitch_range[0] >= 0"
           " and self.velocity_bins[len(self.velocity_bins) - 1] >= 127")
NOFRAME_ALL = dict(NOFRAME, **{"@alloc": "*"})
contract(f"{TK}.tokenise",
         params={"self": f"ref:{TK}", "sequences_bar": "list:ref:Sequence", "insert_bar_token": "bool", "flag_running_time_signature": "bool", "state_dict": f"dict:{SD_KEYS}?"},
         ghost={"g_time": "int", "g_time_bar": "int", "g_cap_total": "int", "g_cap_rem": "int", "g_trk": "int", "g_val": "int", "g_vel": "int"},
         result="list:tok", allocates=True, local_types={"tokens": "list:tok"},
         cases=[f"self.flag_running_values == {a} and self.flag_fuse_track == {b} and self.flag_fuse_value == {c} and self.flag_fuse_velocity == {d}"
                for a in (False, True) for b in (False, True) for c in (False, True) for d in (False, True)],
         requires=[CFG_TOK, "insert_bar_token", STATE_IN],
         modifies=dict(NOFRAME),
         raises={"NotImplementedError": "not flag_running_time_signature", "TokenisationException": "True"},
         assume_pre=["Sequence.set_channel", "Sequence.__init__", "Sequence.merge", "Sequence.get_interleaved_message_pairings", "Sequence.abs"],
         ensures=[("emitted_tokens_in_vocabulary", "dfold_g(self, result, len(result), 'ok') == 1")],
         asserts=[("note_decodes_to_the_note", "prv_track = msg_channel",
                   f"dfold_g(self, {TOKS}, len({TOKS}) - 1, 'time') == msg_time and is_note_tok({TOKS}[len({TOKS}) - 1]) and tok_pitch({TOKS}[len({TOKS}) - 1]) == msg_note"
                   f" and dfold_g(self, {TOKS}, len({TOKS}), 'trk') == msg_channel and dfold_g(self, {TOKS}, len({TOKS}), 'val') == msg_value and dfold_g(self, {TOKS}, len({TOKS}), 'vel') == msg_velocity"),
                  ("state_is_carried", "return tokens",
                   "state_dict['cur_time'] == dfold_g(self, tokens, len(tokens), 'time') and state_dict['cur_time_bar'] == dfold_g(self, tokens, len(tokens), 'time_bar')"
                   " and state_dict['cur_bar_capacity_remaining'] == dfold_g(self, tokens, len(tokens), 'cap_rem')"
                   " and int(self.ppqn * 4 * state_dict['cur_time_signature_numerator'] / state_dict['cur_time_signature_denominator']) == dfold_g(self, tokens, len(tokens), 'cap_total')"
                   " and (state_dict['prv_track'] == -1 or state_dict['prv_track'] == dfold_g(self, tokens, len(tokens), 'trk'))"
                   " and (state_dict['prv_value'] == -1 or state_dict['prv_value'] == dfold_g(self, tokens, len(tokens), 'val'))"
                   " and (state_dict['prv_velocity'] == -1 or state_dict['prv_velocity'] == dfold_g(self, tokens, len(tokens), 'vel'))")],
         lemma_at=[("tdiv_frac", "cur_time_signature_numerator = msg_numerator", "cap_equal_lemma(self, msg_numerator, msg_denominator, scaled)")],
         # summary of the trusted front end (set_channel(i) for i < num_tracks, merge, pairing): the channels that come out are the track indices
         assume_after=[("channels_are_track_indices", "interleaved_pairings = ", "forall(0, len(interleaved_pairings), lambda q: interleaved_pairings[q].g_channel < self.num_tracks)")],
         loops={
             "L0": dict(fingerprint="for (i, sequence_bar) in enumerate(sequences_bar)", inv=[("nothing_yet", f"len({TOKS}) == 0")]),
             "L1": dict(fingerprint="for interleaved_pairing in interleaved_pairings", inv=[
                 ("tokens_in_vocabulary", TOK_INV), ("clock_is_fold", CLOCK_G), ("running_values", RUN_G),
                 ("signature", "cur_time_signature_denominator > 0 and cur_time_signature_numerator >= 0 and cur_bar_capacity_total == int(self.ppqn * 4 * cur_time_signature_numerator / cur_time_signature_denominator)"),
                 ("in_order", "forall(i, len(interleaved_pairings), lambda q: cur_time <= interleaved_pairings[q].g_msgs[0].time + prv_shift)")]),
             "L2": dict(fingerprint="while (cur_time_bar > 0 or cur_time < end_time) and cur_bar_capacity_remaining > 0", dec="max(end_time - cur_time, 0) + ite(cur_time_bar > 0, 1, 0)", inv=[
                 ("tokens_in_vocabulary", TOK_INV), ("clock_is_fold", CLOCK_G), ("running_values", RUN_G)]),
             "_apply_rest.L0": dict(fingerprint="while buf_rest > 0", dec="buf_rest", inv=[
                 ("tokens_in_vocabulary", TOK_INV), ("clock_is_fold", CLOCK_G), ("running_values", RUN_G),
                 ("rest", "buf_rest >= 0 and nxt_rest == min(buf_rest, cur_bar_capacity_remaining)"),
                 ("consumed", "cur_time + buf_rest == entry(cur_time) + entry(buf_rest)"),
                 ("bar_closes", "implies(entry(buf_rest) == entry(cur_bar_capacity_remaining) and entry(buf_rest) > 0,"
                                " (buf_rest == cur_bar_capacity_remaining and buf_rest > 0) or (buf_rest == 0 and cur_time_bar == 0))")]),
         },
         props=["C01", "C02", "C03"])


@lemma("dfold_ok_means_all", ["C02", "C01"])
def dfold_ok_means_all(ctx):
    """the 'ok' component of the fold is 1 after n tokens  iff  every one of the first n tokens satisfies the vocabulary predicate
    (direction used: ok(n) == 1  ==>  forall q < n. okp(tok[q]));  induction on n"""
    A = z3.Array("A", I, I)
    okp = z3.Function("okp", Token, B)
    OKF = z3.Function("OKF", I, I)
    k, b, q = z3.Ints("k b q")
    ax = [OKF(0) == 1, z3.ForAll([k], z3.Implies(k >= 0, OKF(k + 1) == z3.If(z3.And(OKF(k) == 1, okp(tok_dec(A[k]))), 1, 0)), patterns=[OKF(k + 1)])]
    P = lambda n_: z3.Implies(OKF(n_) == 1, z3.ForAll([q], z3.Implies(z3.And(0 <= q, q < n_), okp(tok_dec(A[q])))))
    return [("base", ax, P(z3.IntVal(0)), "n = 0"), ("step", ax + [b >= 0, P(b)], P(b + 1), "n -> n+1")]
