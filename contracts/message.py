"""scoda/elements/message.py : Message.__init__ / Message.copy  (C16, C04)"""
from .registry import contract
from .schema import MSG

FIELDS = list(MSG)
SAME = " and ".join(f"result.{f} == self.{f}" for f in FIELDS if f != "channel")

contract("Message.copy", params={"self": "ref:Message"}, result="ref:Message", allocates=True,
         ensures=[("fresh", "fresh(result) and not is_none(result)"),
                  ("fields_equal", SAME),
                  ("channel", "not is_none(result.channel) and implies(not is_none(self.channel), result.channel == self.channel) and implies(is_none(self.channel), result.channel == 0)")],
         props=["C16", "C04"])
