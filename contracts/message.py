"""scoda/elements/message.py : Message.__init__ / Message.copy  (C16, C04)"""
from .registry import contract
from .schema import MSG

FIELDS = list(MSG)
SAME = " and ".join(f"result.{f} == self.{f}" for f in FIELDS if f != "channel")

contract("Message.copy", params={"self": "ref:Message"}, result="ref:Message", allocates=True,
         ensures=[("fresh", "fresh(result) and not is_none(result) and allocated(result)"),
                  ("fields_equal", SAME),
                  ("channel", "not is_none(result.channel) and implies(not is_none(self.channel), result.channel == self.channel) and implies(is_none(self.channel), result.channel == 0)")],
         props=["C16", "C04"])

# ---------------------------------------------------------------- AbstractSequence.copy  (C16)
from .macros import *
CP = "_comp0"
SAMEF = lambda a, b: " and ".join(f"{a}.{f} == {b}.{f}" for f in FIELDS if f != "channel") + f" and implies(not is_none({b}.channel), {a}.channel == {b}.channel) and not is_none({a}.channel)"
contract("AbstractSequence.copy", params={"self": "ref:AbstractSequence"}, result="ref:AbstractSequence", allocates=True,
         requires=[],
         ensures=[("fresh", f"not is_none(result) and fresh(result) and fresh(result._messages) and result._messages != {M} and forall(0, len(result._messages), lambda j: fresh(result._messages[j]))"),
                  ("same_length", f"len(result._messages) == len({M})"),
                  ("same_content", f"forall(0, len({M}), lambda j: {SAMEF('result._messages[j]', M + '[j]')})"),
                  ("distinct", "distinct(result._messages)"),
                  ("source_untouched", f"len({M}) == old(len({M})) and forall(0, len({M}), lambda j: {M}[j] == old({M}[j]))")],
         loops={"L0": dict(fingerprint="for msg in self._messages", inv=[
             ("len", f"len({CP}) == i and fresh({CP}) and {CP} != {M}"),
             ("fresh", f"forall(0, i, lambda j: fresh({CP}[j]) and allocated({CP}[j]))"),
             ("content", f"forall(0, i, lambda j: {SAMEF(CP + '[j]', M + '[j]')})"),
             ("distinct", f"distinct({CP})")])},
         props=["C16", "C04"])
