"""String macros shared by the sidecar contracts (the shared specification vocabulary of DESIGN.md section 5)."""
M = "self._messages"


def NOTE(m):
    return f"({m}.message_type == MessageType.NOTE_ON or {m}.message_type == MessageType.NOTE_OFF)"


def IS(m, t):
    return f"({m}.message_type == MessageType.{t})"


def DISTINCT(L):
    return f"distinct({L})"


def WF_MSG(m):
    """type-specific mandatory fields"""
    return (f"implies({NOTE(m)}, not is_none({m}.note)) and implies({IS(m, 'KEY_SIGNATURE')}, not is_none({m}.key))"
            f" and implies({IS(m, 'TIME_SIGNATURE')}, not is_none({m}.numerator) and not is_none({m}.denominator))")


def WF_REL(L=M):
    """waits carry a non-negative int time; every element has a type; no message object occurs twice"""
    return (f"forall(0, len({L}), lambda w: not is_none({L}[w].message_type) and implies({IS(L + '[w]', 'WAIT')}, not is_none({L}[w].time) and {L}[w].time >= 0) and {WF_MSG(L + '[w]')})"
            f" and {DISTINCT(L)}")


def WF_ABS(L=M):
    return (f"forall(0, len({L}), lambda w: not is_none({L}[w].message_type) and {L}[w].message_type != MessageType.WAIT and not is_none({L}[w].time) and {L}[w].time >= 0 and {WF_MSG(L + '[w]')})"
            f" and {DISTINCT(L)}")


def SORTED(L=M):
    return f"sorted_by_time({L})"


def PROTO(s="self"):
    """representation invariant of the Sequence wrapper (protocol part of wf_seq, DESIGN section 5)"""
    A, Rr = f"{s}._abs._messages", f"{s}._rel._messages"
    return (f"not ({s}._abs_stale and {s}._rel_stale)"
            f" and implies(not {s}._abs_stale, not is_none({s}._abs) and {WF_ABS(A)})"
            f" and implies(not {s}._rel_stale, not is_none({s}._rel) and {WF_REL(Rr)})"
            f" and implies(not {s}._abs_stale and not {s}._rel_stale, {A} != {Rr} and forall(0, len({A}), lambda pa: forall(0, len({Rr}), lambda pb: {A}[pa] != {Rr}[pb])))")


OWN = "[self._abs._messages, self._rel._messages]"     # message objects of either stored view
OWN_LISTS = "[self._abs._messages, self._rel._messages]"
SELF_FIELDS = {"_abs": "self", "_rel": "self", "_abs_stale": "self", "_rel_stale": "self"}
