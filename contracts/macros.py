"""String macros shared by the sidecar contracts (the shared specification vocabulary of DESIGN.md section 5)."""
M = "self._messages"


def NOTE(m):
    return f"({m}.message_type == MessageType.NOTE_ON or {m}.message_type == MessageType.NOTE_OFF)"


def IS(m, t):
    return f"({m}.message_type == MessageType.{t})"


def DISTINCT(L):
    return f"forall(0, len({L}), lambda da: forall(0, len({L}), lambda db: implies(da != db, {L}[da] != {L}[db])))"


def WF_REL(L=M):
    """waits carry a non-negative int time; every element has a type; no message object occurs twice"""
    return (f"forall(0, len({L}), lambda w: not is_none({L}[w].message_type) and implies({IS(L + '[w]', 'WAIT')}, not is_none({L}[w].time) and {L}[w].time >= 0))"
            f" and {DISTINCT(L)}")


def WF_ABS(L=M):
    return (f"forall(0, len({L}), lambda w: not is_none({L}[w].message_type) and {L}[w].message_type != MessageType.WAIT and not is_none({L}[w].time) and {L}[w].time >= 0)"
            f" and {DISTINCT(L)}")


def SORTED(L=M):
    return f"forall(0, len({L}), lambda sa: forall(sa, len({L}), lambda sb: {L}[sa].time <= {L}[sb].time))"
