"""Field types of the heap classes.  Cross-checked on every run against the attributes the real
__init__ methods assign (pyvc.verify.build_ctx); a mismatch makes every user undecided."""
MSG = {"message_type": "enum:MessageType?", "channel": "int?", "time": "int?", "note": "int?", "velocity": "int?",
       "control": "int?", "program": "int?", "numerator": "int?", "denominator": "int?", "key": "enum:Key?"}
SCHEMA = {
    "Message": dict(MSG),
    "MidiMessage": dict(MSG),
    "AbstractSequence": {"_messages": "list:ref:Message"},
    "RelativeSequence": {},
    "AbsoluteSequence": {},
    "Sequence": {"_abs": "ref:AbsoluteSequence?", "_rel": "ref:RelativeSequence?", "_abs_stale": "bool", "_rel_stale": "bool"},
    "Bar": {"sequence": "ref:Sequence", "time_signature_numerator": "int", "time_signature_denominator": "int", "key_signature": "enum:Key?"},
    "Track": {"name": "int?", "bars": "list:ref:Bar", "program": "int?"},
    "Composition": {"tracks": "list:ref:Track"},
    "MidiTrack": {"name": "int", "messages": "list:ref:MidiMessage"},
    # ghost class for mido.Message / mido.MetaMessage objects (assumed to be records that store their keyword arguments)
    "MidoMsg": {"type": "enum:MidoKind", "note": "int?", "velocity": "int?", "time": "int?", "numerator": "int?", "denominator": "int?", "key": "enum:Key?", "control": "int?", "value": "int?", "channel": "int?", "program": "int?"},
    # ghost class for the (channel, [messages]) tuples returned by get_interleaved_message_pairings
    "Pairing": {"g_channel": "int?", "g_msgs": "list:ref:Message", "__tuple__": "g_channel,g_msgs"},
    "MultiTrackLargeVocabularyNotelikeTokeniser": {
        "dictionary": "int", "inverse_dictionary": "int", "_dictionary_size": "int", "ppqn": "int", "step_sizes": "list:int", "note_values": "list:int",
        "num_tracks": "int", "pitch_range": "list:int", "time_signature_range": "list:int", "flag_running_values": "bool", "flag_fuse_track": "bool",
        "flag_fuse_value": "bool", "flag_fuse_velocity": "bool", "flag_simplify_time_signature": "bool", "velocity_bins": "list:int", "cur_time": "int?", "cur_rest_buffer": "int?"},
}
