"""Per-property claim: level, what is proved / bounded / assumed.  MANIFEST.json is generated from this (gen_manifest.py)."""
FLOAT = "FLOAT-EXACT: Python float arithmetic is modelled in exact rationals (SMT Real)"
INTS = "Python int is SMT Int (exact); // and % have floor semantics"
STR = "STR: f-string formatting of non-negative ints yields digit strings without '-' or '_'; int() inverts it; str.split splits at literal separators only"
SORT = "A: list.sort/sorted is a stable permutation ordered by the key"

PROPS = {
    "C20": dict(level="proof", bounded=True, technique="contract-based deductive verification: own AST->SMT VC generator over the real music_theory.py, z3/cvc5",
                explanation="Key.transpose_key, CircleOfFifths.get_position/get_distance/from_distance verified against contracts for unbounded integer arguments "
                            "(15 keys case-split inside the solver); additivity / identity-mod-12 / distance round-trip are lemmas over the contracts; table facts are closed (F). "
                            "A complete enumeration over the finite domains is run in addition (bounded tier, exhaustive).",
                assumptions=[INTS, "enum members are modelled by their index in the real class body (read from the imported module on every run)"],
                note="trusted: z3/cvc5, the pyvc VC generator, CPython's ast; no scoda callee is assumed"),
    "C14": dict(level="other", bounded=True, technique="contract-based deductive verification (loop invariants on the real RelativeSequence.transpose, callee contract of Key.transpose_key) + bounded enumeration for the normalise/re-quantise tail",
                explanation="U: RelativeSequence.transpose (range, pitch class shifted by exactly the interval, flag exact, exact shift of every note that needs no octave move, only note/key fields written, "
                            "key signatures transposed via the Key.transpose_key contract), Bar.transpose and Sequence.transpose wrappers, for all integer intervals and all message lists. "
                            "L: transposing back restores. B: the shifted=>normalise+quantise_note_lengths tail (clause e) by enumeration near both range limits.",
                assumptions=[INTS], note="clause e (after an octave move the sequence is re-normalised and re-quantised) is bounded only"),
    "C18": dict(level="other", bounded=True, technique="contract-based deductive verification (loop invariants on pad / set_channel / scale, lemmas wsum_mono and wsum_scale by induction) + bounded enumeration for cutoff",
                explanation="U: RelativeSequence.pad (events untouched, exactly one wait of n - duration appended iff duration < n), set_channel, scale for integer k >= 1 (every wait multiplied by k, nothing else written), "
                            "L: duration/onsets scale by k (induction lemma). Sequence-level wrappers: protocol obligations (operate on the fresh relative view, invalidate the absolute one). "
                            "B: cutoff (depends on the pairing function) and the wrappers end-to-end by enumeration with an independent oracle.",
                assumptions=[INTS], note="cutoff is bounded only (pairing contract not proved)"),
    "C04": dict(level="other", bounded=True, technique="contract-based deductive verification of the Sequence representation invariant (established by the constructor, preserved by every public method, case split over the three freshness states) + bounded random histories for the view-equality clause",
                explanation="U: protocol part of the representation invariant for every public Sequence method from every freshness state: never both views stale (never unreadable), a fresh view is well-formed, "
                            "every mutator runs on a freshly obtained view and leaves the other view stale (so its effect is what the other view is recomputed from), overwrite makes the overwritten view the fresh one, "
                            "the two stored views never share message objects; conversions return fresh well-formed sequences (to_relative_sequence / to_absolute_sequence with loop invariants, list.sort by its assumed contract). "
                            "B: the content clause (both views describe the same timed events and duration, conversions lose nothing) by seeded random operation histories compared through an independent timeline oracle.",
                assumptions=[INTS, SORT, "A: wf-preservation of quantise / quantise_note_lengths / cutoff / merge / normalise_relative / concatenate at the wrapper level (validated by the bounded tier)",
                             "generators messages_abs/messages_rel are covered by the bounded tier only"],
                note="same_view (content equality of the two views) is bounded, not proved"),
}

NOT_APPLICABLE = {}
