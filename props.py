"""Per-property claim: level, what is proved / bounded / assumed.  MANIFEST.json is generated from this (gen_manifest.py)."""
FLOAT = "FLOAT-EXACT: Python float arithmetic is modelled in exact rationals (SMT Real)"
INTS = "Python int is SMT Int (exact); // and % have floor semantics"
STR = "STR: f-string formatting of non-negative ints yields digit strings without '-' or '_'; int() inverts it; str.split splits at literal separators only"
SORT = "A: list.sort/sorted is a stable permutation ordered by the key"

PROPS = {
    "C20": dict(level="proof", bounded=True, technique="contract-based deductive verification: own AST->SMT VC generator over the real music_theory.py, z3/cvc5",
                explanation="Key.transpose_key, CircleOfFifths.get_position/get_distance/from_distance verified against contracts for unbounded integer arguments "
                            "(15 keys case-split inside the solver); additivity / identity-mod-12 / distance round-trip are lemmas over the contracts; table facts are closed (F). "
                            "A complete enumeration over the finite domains is run in addition (bounded tier, exhaustive).",
                assumptions=[INTS, "enum members are modelled by their index in the real class body (read from the imported module on every run)"],
                note="trusted: z3/cvc5, the pyvc VC generator, CPython's ast; no scoda callee is assumed"),
    "C14": dict(level="other", bounded=True, technique="contract-based deductive verification (loop invariants on the real RelativeSequence.transpose, callee contract of Key.transpose_key) + bounded enumeration for the normalise/re-quantise tail",
                explanation="U: RelativeSequence.transpose (range, pitch class shifted by exactly the interval, flag exact, exact shift of every note that needs no octave move, only note/key fields written, "
                            "key signatures transposed via the Key.transpose_key contract), Bar.transpose and Sequence.transpose wrappers, for all integer intervals and all message lists. "
                            "L: transposing back restores. B: the shifted=>normalise+quantise_note_lengths tail (clause e) by enumeration near both range limits.",
                assumptions=[INTS], note="clause e (after an octave move the sequence is re-normalised and re-quantised) is bounded only"),
    "C18": dict(level="other", bounded=True, technique="contract-based deductive verification (loop invariants on pad / set_channel / scale, lemmas wsum_mono and wsum_scale by induction) + bounded enumeration for cutoff",
                explanation="U: RelativeSequence.pad (events untouched, exactly one wait of n - duration appended iff duration < n), set_channel, scale for integer k >= 1 (every wait multiplied by k, nothing else written), "
                            "L: duration/onsets scale by k (induction lemma). Sequence-level wrappers: protocol obligations (operate on the fresh relative view, invalidate the absolute one). "
                            "B: cutoff (depends on the pairing function) and the wrappers end-to-end by enumeration with an independent oracle.",
                assumptions=[INTS], note="cutoff is bounded only (pairing contract not proved)"),
}

NOT_APPLICABLE = {}
