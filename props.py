"""Per-property claim: level, what is proved / bounded / assumed.  MANIFEST.json is generated from this (gen_manifest.py)."""
FLOAT = "FLOAT-EXACT: Python float arithmetic is modelled in exact rationals (SMT Real)"
INTS = "Python int is SMT Int (exact); // and % have floor semantics"
STR = "STR: f-string formatting of non-negative ints yields digit strings without '-' or '_'; int() inverts it; str.split splits at literal separators only"
SORT = "A: list.sort/sorted is a stable permutation ordered by the key"

PROPS = {
    "C20": dict(level="proof", bounded=True, technique="contract-based deductive verification: own AST->SMT VC generator over the real music_theory.py, z3/cvc5",
                explanation="Key.transpose_key, CircleOfFifths.get_position/get_distance/from_distance verified against contracts for unbounded integer arguments "
                            "(15 keys case-split inside the solver); additivity / identity-mod-12 / distance round-trip are lemmas over the contracts; table facts are closed (F). "
                            "A complete enumeration over the finite domains is run in addition (bounded tier, exhaustive).",
                assumptions=[INTS, "enum members are modelled by their index in the real class body (read from the imported module on every run)"],
                note="trusted: z3/cvc5, the pyvc VC generator, CPython's ast; no scoda callee is assumed"),
}

NOT_APPLICABLE = {}
