"""Per-property claim: level, what is proved / bounded / assumed.  MANIFEST.json is generated from this (gen_manifest.py)."""
FLOAT = "FLOAT-EXACT: Python float arithmetic is modelled in exact rationals (SMT Real)"
INTS = "Python int is SMT Int (exact); // and % have floor semantics"
STR = "STR: f-string formatting of non-negative ints yields digit strings without '-' or '_'; int() inverts it; str.split splits at literal separators only"
SORT = "A: list.sort/sorted is a stable permutation ordered by the key"

PROPS = {
    "C20": dict(level="proof", bounded=True, technique="contract-based deductive verification: own AST->SMT VC generator over the real music_theory.py, z3/cvc5",
                explanation="Key.transpose_key, CircleOfFifths.get_position/get_distance/from_distance verified against contracts for unbounded integer arguments "
                            "(15 keys case-split inside the solver); additivity / identity-mod-12 / distance round-trip are lemmas over the contracts; table facts are closed (F). "
                            "A complete enumeration over the finite domains is run in addition (bounded tier, exhaustive).",
                assumptions=[INTS, "enum members are modelled by their index in the real class body (read from the imported module on every run)"],
                note="trusted: z3/cvc5, the pyvc VC generator, CPython's ast; no scoda callee is assumed"),
    "C14": dict(level="other", bounded=True, technique="contract-based deductive verification (loop invariants on the real RelativeSequence.transpose, callee contract of Key.transpose_key) + bounded enumeration for the normalise/re-quantise tail",
                explanation="U: RelativeSequence.transpose (range, pitch class shifted by exactly the interval, flag exact, exact shift of every note that needs no octave move, only note/key fields written, "
                            "key signatures transposed via the Key.transpose_key contract), Bar.transpose and Sequence.transpose wrappers, for all integer intervals and all message lists. "
                            "L: transposing back restores. B: the shifted=>normalise+quantise_note_lengths tail (clause e) by enumeration near both range limits.",
                assumptions=[INTS], note="clause e (after an octave move the sequence is re-normalised and re-quantised) is bounded only"),
    "C18": dict(level="other", bounded=True, technique="contract-based deductive verification (loop invariants on pad / set_channel / scale, lemmas wsum_mono and wsum_scale by induction) + bounded enumeration for cutoff",
                explanation="U: RelativeSequence.pad (events untouched, exactly one wait of n - duration appended iff duration < n), set_channel, scale for integer k >= 1 (every wait multiplied by k, nothing else written), "
                            "L: duration/onsets scale by k (induction lemma). Sequence-level wrappers: protocol obligations (operate on the fresh relative view, invalidate the absolute one). "
                            "B: cutoff (depends on the pairing function) and the wrappers end-to-end by enumeration with an independent oracle.",
                assumptions=[INTS], note="cutoff is bounded only (pairing contract not proved)"),
    "C04": dict(level="other", bounded=True, technique="contract-based deductive verification of the Sequence representation invariant (established by the constructor, preserved by every public method, case split over the three freshness states) + bounded random histories for the view-equality clause",
                explanation="U: protocol part of the representation invariant for every public Sequence method from every freshness state: never both views stale (never unreadable), a fresh view is well-formed, "
                            "every mutator runs on a freshly obtained view and leaves the other view stale (so its effect is what the other view is recomputed from), overwrite makes the overwritten view the fresh one, "
                            "the two stored views never share message objects; conversions return fresh well-formed sequences (to_relative_sequence / to_absolute_sequence with loop invariants, list.sort by its assumed contract). "
                            "B: the content clause (both views describe the same timed events and duration, conversions lose nothing) by seeded random operation histories compared through an independent timeline oracle.",
                assumptions=[INTS, SORT, "A: wf-preservation of quantise / quantise_note_lengths / cutoff / merge / concatenate at the wrapper level (validated by the bounded tier); normalise_relative is verified against the same contract",
                             "generators messages_abs/messages_rel are covered by the bounded tier only"],
                note="same_view (content equality of the two views) is bounded, not proved"),
    "C16": dict(level="other", bounded=True, technique="contract-based deductive verification of freshness/ownership postconditions of the copy routes + bounded independence histories",
                explanation="U: Message.copy (fresh object, all fields equal), AbstractSequence.copy (fresh list of fresh, pairwise distinct messages with equal content), Sequence.copy (fresh wrapper, same freshness state, views copied, "
                            "invariant holds for both, source untouched), for all inputs and all three freshness states; RelativeSequence.split: every piece, piece list and message in a piece is created by the call and the source is not written (empty modifies clause). B: Bar/Track/Composition copies, split pieces, bar splitting with either setting, and independence under later operations on either side.",
                assumptions=[INTS], note="Bar/Track/Composition.copy and sequences_split_bars freshness are bounded only so far; RelativeSequence.split pieces are proved fresh, normalise_relative proved to build a fresh list"),
    "C01": dict(level="other", bounded=True, technique="bounded enumeration with an independent note/bar-grid oracle (deductive part so far: binary_insort, used by detokenise)",
                explanation="B: generated valid pieces (V_strict grid) x random configurations, tokenise -> encode -> decode -> detokenise compared with the piece by an independent oracle. U so far only for binary_insort (ordered insertion used by detokenise).",
                assumptions=[INTS, STR], note="tokenise/detokenise themselves are not yet under contract; known findings D15, D18"),
    "C02": dict(level="other", bounded=True, technique="complete enumeration of the vocabulary per configuration over a configuration lattice + independent construction of the expected vocabulary",
                explanation="B (complete per configuration, as the property itself asks for the vocabulary side): ids, size, inverse maps, encode/decode on every member, detokenise accepts every member; tokenise output membership on generated pieces.",
                assumptions=[STR], note="not yet under contract; known finding D6"),
    "C03": dict(level="other", bounded=True, technique="bounded enumeration: all 2^(n-1) groupings of consecutive bars into calls vs whole-piece tokenisation",
                explanation="B: every grouping of 1-5 bars into calls for generated pieces and configurations, plus an exhaustive small family for the carried running values.", assumptions=[STR], note="not yet under contract; known finding D18"),
    "C05": dict(level="other", bounded=True, technique="contract-based deductive verification of find_minimal_distance (the choice function of quantise) + bounded enumeration with an independent per-(channel,pitch) oracle",
                explanation="U: find_minimal_distance returns an index of minimal distance, earliest on ties, for all integer lists. B: grid, displacement, pairing, non-note events, survival rule on small-scope enumeration and seeded random inputs.",
                assumptions=[INTS], note="quantise itself is bounded only so far"),
    "C06": dict(level="other", bounded=True, technique="contract-based deductive verification of find_minimal_distance + bounded enumeration with an independent oracle",
                explanation="U: find_minimal_distance (closest allowed value, earliest on ties). B: allowed durations, fixed onsets, no overlap, no extension, closest fit, removal only when nothing fits.", assumptions=[INTS], note="quantise_note_lengths itself is bounded only so far"),
    "C07": dict(level="other", bounded=True, technique="contract-based deductive verification of RelativeSequence.normalise_relative (duration, well-formed result, frame; the open-note dict is abstracted) + exhaustive small-scope enumeration with an independent open-note automaton",
                explanation="U: for every input list (ill-formed ones included) normalise_relative leaves the total duration unchanged (loop invariant: wait sum of the output so far + pending wait buffer = wait sum of the consumed prefix; "
                            "the unclosed-note clean-up removes only note-ons, lemma wsum_remove), builds a fresh list in which no message object occurs twice, every element is typed and every wait has a non-negative time, "
                            "and changes no field of any input message nor any other list. The per-(channel,pitch) dict of open notes is an ABSTRACT dict: reads return an arbitrary list of note-ons, so these clauses hold for every dict content. "
                            "B: alternation per (channel,pitch), dropped repeated signatures, sounding set, idempotence on all event strings up to a small length + seeded random strings.",
                assumptions=[INTS, "A: abstract-dict model of open_messages (lookups assumed to hit; stored lists are created by the call; refinement 'lists of NOTE_ON messages' checked at every store and in-place mutation)"],
                note="the alternation / signature / sounding-set clauses depend on the dict content and are bounded only"),
    "C08": dict(level="other", bounded=True, technique="contract-based deductive verification of RelativeSequence.split (source untouched, pieces built from fresh objects, piece count, termination, no exception) + bounded enumeration with an independent piano-roll oracle",
                explanation="U: for every sequence and capacity list, split changes no field of any input message and no input list (empty modifies clause, automatic frame obligations through four nested loops), "
                            "returns at most len(capacities)+1 pieces, every piece / piece list / message in a piece is an object created by the call, the inner loop terminates (variant len(working_memory)), and no None is dereferenced. "
                            "B: capacities exact, duration/sound/events conserved, pieces silent at their end, on enumerated and random inputs.",
                assumptions=[INTS, "A: abstract-dict model of open_messages (values are message references; content untracked)"],
                note="exact capacities and conservation of sound are bounded only"),
    "C09": dict(level="other", bounded=True, technique="bounded seeded exploration with an independent bar-grid and piano-roll oracle", explanation="B: bar counts, bar lengths, carried signature/key, coverage, sounding set, inputs unchanged.", assumptions=[FLOAT], note="not yet under contract"),
    "C10": dict(level="other", bounded=True, technique="contract-based deductive verification of RelativeSequence.pad (used for the exact bar length) + bounded grid over (sequence, signature, key)",
                explanation="U: pad makes the duration max(old, n) and touches no event. B: Bar construction over a grid of durations / signatures / signature content, exact length in rationals, copy.", assumptions=[FLOAT, INTS], note="Bar.__init__ itself is bounded only so far"),
    "C11": dict(level="other", bounded=True, tags=True, technique="modular type-tag analysis (int/float/none lattice) over all of scoda/ with per-function parameter/result tag contracts checked at every call site + bounded operation histories",
                explanation="F/U: every place in scoda/ where a tick value is produced (writes to .time, Message(time=...), tick arguments of pad / cutoff / split / scale / Bar / quantise*, ticks rendered into tokens) is an obligation "
                            "'the value is int-tagged', found by a syntactic scan on every run and discharged by flow-sensitive abstract evaluation in the finite tag lattice; callers are checked against parameter-tag contracts. "
                            "B: seeded histories over 15 operations with type checks of both views after every step.",
                assumptions=["A: CPython typing facts: / and float() give float; //, %, int(), round(x), len() give int; int op int is int", "history closure is the usual invariant argument (every operation preserves ticks_int)"],
                note="a refuted tag obligation has no model of its own; the failing input comes from the bounded tier"),
    "C12": dict(level="other", bounded=True, technique="contract-based deductive verification of the save path up to the mido boundary (field-wise copies, every event written at its absolute tick) + bounded round trips through a real temporary file (mido is the assumed codec)",
                explanation="U: MidiMessage.parse_internal_message and RelativeSequence.to_midi_track copy every field of every message; MidiTrack.to_mido_track writes every note / signature / control event with a delta time such that "
                            "its absolute tick (sum of the delta times written so far) equals the absolute tick of its source message (loop invariant over two wait-sums related by lemma wsum_ext; assertion anchored at every track.append). "
                            "B: save -> load round trips of generated sequence lists compared by an independent oracle (notes, signatures in force).",
                assumptions=[INTS, "A: mido.Message / mido.MetaMessage store their keyword arguments; mido.MidiFile.save / load is a faithful codec", SORT],
                note="the load path (parse_mido_message, convert) and the file codec are bounded / assumed; known finding D16"),
    "C13": dict(level="other", bounded=True, technique="contract-based deductive verification of MidiMessage.parse_mido_message (note-on with velocity 0 is a note-off, fields copied, key names) + bounded differential test against exact rational positions (fractions.Fraction) on files written directly with mido",
                explanation="U: parse_mido_message maps every mido message kind to the right event with the right fields; note_on with velocity 0 and note_off both give NOTE_OFF; F: key names round-trip through the key table. "
                            "B: rescaling to the nearest tick without drift (13 resolutions, long irregular delta patterns), routing over groupings / meta selections / meta targets, sounding-set union per group.",
                assumptions=["A: mido decodes the file into the message objects the file was written from", FLOAT],
                note="MidiFile.convert (rescaling with float accumulation, routing) is bounded only; known finding D19"),
    "C15": dict(level="other", bounded=True, technique="bounded enumeration over families of sequences and all merge orders with an independent piano-roll oracle", explanation="B: sounding-set union, fusion, signatures, duration, order independence.", assumptions=[SORT], note="not yet under contract"),
    "C17": dict(level="other", bounded=True, technique="contract-based deductive verification of AbsoluteSequence.equals against the property's definition of equality over the canonical pairings, and of the Sequence.equals wrapper (same flags) + bounded generated pairs",
                explanation="U: AbsoluteSequence.equals returns True iff the two interleaved pairing lists have equal length and agree pairwise on type, tick, pitch, duration, velocity unless ignored, channel unless ignored, "
                            "signature values (loop invariant over zip, early returns, all 16 flag combinations symbolic); Sequence.equals delegates to it on the two absolute views with the same four flags, from every freshness state. "
                            "B: reflexivity, symmetry, copies, re-representation, re-ordering and every single-attribute perturbation x 16 flag combinations.",
                assumptions=[INTS, "A: get_interleaved_message_pairings is the canonical content extraction (notes paired, onset order); validated by the bounded tier"],
                note="the pairing function itself is assumed"),
    "C19": dict(level="other", bounded=True, technique="bounded random vocabulary streams and tokenise output; note onsets recovered by detokenising every prefix", explanation="B: as described, both imputation settings, non-default ppqn.", assumptions=[STR], note="not yet under contract"),
}

NOT_APPLICABLE = {}
