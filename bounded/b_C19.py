"""C19 bounded: get_info annotations vs the timeline detokenise builds, on arbitrary vocabulary streams and on tokenise output."""
from tokgen import *
import math

COF = {0: 0, 7: 1, 2: 2, 9: 3, 4: 4, 11: 5, 6: 6, 1: -5, 8: -4, 3: -3, 10: -2, 5: -1}      # independent pitch-class table


def note_onsets_by_position(tk, toks):
    """onset at which detokenise places the note of each note token: detokenise prefix streams and watch NOTE_ONs appear"""
    out = {}
    prev = 0
    for k in range(len(toks)):
        seqs = tk.detokenise(toks[:k + 1])
        ons = sorted((m.time, m.note) for s in seqs for m in s.abs._messages if m.message_type == MT.NOTE_ON)
        if len(ons) > prev:
            # the newly added note
            before = sorted((m.time, m.note) for s in tk.detokenise(toks[:k]) for m in s.abs._messages if m.message_type == MT.NOTE_ON) if k else []
            new = list(ons)
            for x in before:
                new.remove(x)
            out[k] = new[0]
        prev = len(ons)
    return out


@guarded
def check(r, cfg, toks, from_tokenise, ppqn=None):
    inp = {"cfg": cfg, "tokens": toks, "from_tokenise": from_tokenise, "ppqn": ppqn}
    tk = mk_tok(dict(cfg, **({"ppqn": ppqn} if ppqn else {})))
    onsets = note_onsets_by_position(tk, toks)
    for impute in (False, True):
        info = tk.get_info(toks, flag_impute_values=impute)
        keys = ("info_position", "info_time", "info_time_bar", "info_pitch", "info_circle_of_fifths")
        if any(len(info[k]) != len(toks) for k in keys):
            return r.fail("one_entry_per_token", inp, {k: len(info[k]) for k in keys})
        if info["info_position"] != list(range(len(toks))):
            return r.fail("positions", inp, info["info_position"][:10])
        for k, (t, p) in onsets.items():
            if info["info_time"][k] != t:
                return r.fail("note_time", inp, f"token {k} ({toks[k]}): info_time {info['info_time'][k]}, detokenise places the note at {t}")
            if info["info_pitch"][k] != p or info["info_circle_of_fifths"][k] != COF[p % 12]:
                return r.fail("note_pitch", inp, f"token {k} ({toks[k]}): pitch {info['info_pitch'][k]} / cof {info['info_circle_of_fifths'][k]}, note {p} / {COF[p % 12]}")
        if not impute:
            for k, t in enumerate(toks):
                if k not in onsets and "pit_" not in t and not (isinstance(info["info_pitch"][k], float) and math.isnan(info["info_pitch"][k])):
                    return r.fail("non_note_pitch_nan", inp, f"token {k} ({t}) annotated with pitch {info['info_pitch'][k]}")
        if from_tokenise:
            tms = info["info_time"]
            if any(b < a for a, b in zip(tms, tms[1:])):
                return r.fail("monotone", inp, "annotated times decrease")
            marks = sorted({m.time for s in tk.detokenise(toks) for m in s.abs._messages if m.message_type == MT.INTERNAL})
            for k, (t, p) in onsets.items():
                start = max([b for b in marks if b <= t] + [0])
                if info["info_time_bar"][k] != t - start:
                    return r.fail("time_in_bar", inp, f"token {k}: info_time_bar {info['info_time_bar'][k]}, onset {t} - bar start {start}")


def random_stream(rng, tk, n):
    vocab = list(tk.dictionary)
    weights = [6 if t.startswith("rst") else 5 if t == "bar" else 4 if t.startswith("tsg") else 1 for t in vocab]
    notes = [t for t in vocab if "pit_" in t]
    out = []
    for _ in range(n):
        if rng.random() < 0.4:
            out.append(rng.choice(notes))
        else:
            out.append(rng.choices(vocab, weights)[0])
    return out


def run(r):
    rng = r.rng
    r.rules.append("seeded random streams of 1-25 vocabulary tokens (bar tokens in partly filled and over-full bars, signature tokens mid-bar, unfused trk/val/vel tokens, pad/sta/sto) x random configurations x ppqn in {24, 12, 48}, "
                   "and tokenise output of generated valid pieces; note onsets recovered by detokenising every prefix; both imputation settings; distinct = distinct (configuration, stream)")
    for k in range(150 if r.tier == "quick" else 3000):
        cfg = gen_config(rng)
        cfg["pitch_range"] = (58, 66)
        ppqn = rng.choice((None, None, 12, 48))
        tk = mk_tok(dict(cfg, **({"ppqn": ppqn} if ppqn else {})))
        toks = random_stream(rng, tk, rng.randrange(1, 26))
        r.case("random_stream", [cfg, toks, ppqn]); check(r, cfg, toks, False, ppqn)
    for k in range(80 if r.tier == "quick" else 1500):
        cfg = gen_config(rng)
        tk = mk_tok(cfg)
        piece = gen_piece(rng, cfg, tk, max_bars=3)
        piece["build"] = "rel"
        try:
            toks = tk.tokenise(piece_sequences(piece))
        except TokenisationException:
            continue
        r.case("tokenise_stream", [cfg, toks]); check(r, cfg, toks, True)


def replay(r, chk, inp):
    check(r, inp["cfg"], inp["tokens"], inp["from_tokenise"], inp.get("ppqn"))
