"""C08 bounded: Sequence.split on enumerated and seeded random well-formed sequences x capacity lists."""
from common import *


def vel_roll(tl):
    """(channel, pitch, tick) -> velocity of the sounding note (well-paired input)"""
    out, op = {}, {}
    for t, m in tl[0]:
        k = (m.channel, m.note)
        if m.message_type == MT.NOTE_ON:
            op.setdefault(k, []).append((t, m.velocity))
        elif m.message_type == MT.NOTE_OFF and op.get(k):
            a, v = op[k].pop(0)
            for x in range(a, t):
                out[(k[0], k[1], x)] = v
    return out


@guarded
def check(r, items, caps):
    inp = {"items": items, "caps": caps}
    s = rseq(items)
    src_before = rel_to_json(s.rel._messages)
    tl0 = timeline_rel(s.rel._messages)
    ids0 = {id(m) for m in s.rel._messages}
    pieces = s.split(list(caps))
    if rel_to_json(s.rel._messages) != src_before:
        return r.fail("source_unchanged", inp, "the source's messages changed")
    if len(pieces) > len(caps) + 1:
        return r.fail("piece_count", inp, f"{len(pieces)} pieces for {len(caps)} capacities")
    offset, allev, allroll, durs = 0, [], {}, []
    for k, p in enumerate(pieces):
        if any(id(m) in ids0 for m in p.rel._messages):
            return r.fail("aliasing", inp, f"piece {k} shares message objects with the source")
        tl = timeline_rel(p.rel._messages)
        durs.append(tl[1])
        if k < len(pieces) - 1 and tl[1] != caps[k]:
            return r.fail("capacity", inp, f"piece {k} lasts {tl[1]}, capacity {caps[k]}")
        if k == len(pieces) - 1 and k < len(caps) and tl[1] > caps[k]:
            return r.fail("capacity", inp, f"last piece {k} lasts {tl[1]} > capacity {caps[k]}")
        unclosed = [e for e in alternation_errors(tl) if e.startswith("unclosed")]
        if unclosed:
            return r.fail("ends_silent", inp, f"piece {k}: {unclosed}")
        for (c, p_, x), v in vel_roll(tl).items():
            allroll[(c, p_, x + offset)] = v
        allev += [(t + offset,) + desc(m) for t, m in tl[0] if m.message_type not in (MT.NOTE_ON, MT.NOTE_OFF)]
        offset += tl[1]
    if sum(durs) != tl0[1]:
        return r.fail("duration_sum", inp, f"pieces last {durs}, source {tl0[1]}")
    want = vel_roll(tl0)
    if allroll != want:
        lost = sorted(set(want) - set(allroll))[:4]; gained = sorted(set(allroll) - set(want))[:4]
        wrongv = [k for k in want if k in allroll and allroll[k] != want[k]][:3]
        return r.fail("sounding_set", inp, f"lost {lost} gained {gained} wrong velocity {wrongv}")
    ev0 = sorted((t,) + desc(m) for t, m in tl0[0] if m.message_type not in (MT.NOTE_ON, MT.NOTE_OFF))
    if sorted(allev) != ev0:
        return r.fail("events", inp, f"non-note events {sorted(allev)} expected {ev0}")


def run(r):
    rng = r.rng
    r.rules.append("exhaustive small scope: sequences from 1-2 notes (2 channels, same/different pitch, onsets and lengths on/off the boundaries 0,6,12) with 0-1 non-note event at ticks {0,6,12,end} and optional trailing rest, "
                   "x capacity lists {[6],[12],[6,6],[6,12],[5,7],[12,12,12]}; plus seeded random sequences (1-6 notes, events, rests) x random capacity lists; distinct = distinct (sequence, capacities)")
    caps_all = [[6], [12], [6, 6], [6, 12], [5, 7], [12, 12, 12], [1], [30]]
    base_notes = []
    for c1, p1 in ((0, 60),):
        for on1 in (0, 3, 6):
            for d1 in (3, 6, 9, 15):
                base_notes.append([(c1, p1, on1, d1, 64)])
                for c2, p2 in ((1, 60), (0, 62)):
                    for on2 in (0, 6, 8):
                        for d2 in (4, 10):
                            base_notes.append([(c1, p1, on1, d1, 64), (c2, p2, on2, d2, 100)])
    for notes in base_notes:
        end = max(on + d for _, _, on, d, _ in notes)
        for ex in ([], [(0, ('ks', 'D'))], [(6, ('cc', 1, 2))], [(12, ('ts', 3, 4))], [(end, ('ks', 'G'))]):
            for tail in (0, 6):
                items = notes_to_rel(notes, ex, tail)
                for caps in caps_all if r.tier != "quick" else caps_all[:6:1]:
                    r.case("enum", [items, caps]); check(r, items, caps)
    for _ in range(1500 if r.tier == "quick" else 30000):
        notes = gen_notes(rng, rng.randrange(1, 7), channels=(0, 1, 2), pitches=(60, 61), max_on=40, durs=(1, 2, 5, 12, 30))
        end = max([on + d for _, _, on, d, _ in notes] + [0])
        extras = [(rng.choice((0, 6, 12, 24, end)), rng.choice((('ks', 'A'), ('cc', 7, 9), ('ts', 6, 8), ('pc', 3)))) for _ in range(rng.randrange(0, 3))]
        items = notes_to_rel(notes, extras, rng.choice((0, 0, 4, 12)))
        caps = [rng.choice((1, 5, 6, 12, 24, end or 1)) for _ in range(rng.randrange(1, 5))]
        r.case("random", [items, caps]); check(r, items, caps)


def replay(r, chk, inp):
    check(r, inp["items"], inp["caps"])
