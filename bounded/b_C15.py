"""C15 bounded: Sequence.merge over families of well-formed sequences, all merge orders."""
from common import *
from b_C07 import sig_events


def union_intervals(rollset):
    """(c,p) -> maximal runs"""
    by = {}
    for c, p, t in rollset:
        by.setdefault((c, p), []).append(t)
    out = []
    for (c, p), ts in by.items():
        ts.sort()
        a = prev = ts[0]
        for t in ts[1:]:
            if t != prev + 1:
                out.append((c, p, a, prev + 1 - a)); a = t
            prev = t
        out.append((c, p, a, prev + 1 - a))
    return sorted(out)


@guarded
def check(r, family):
    inp = {"family": family}
    want_roll, want_dur, sig_union = set(), 0, []
    for items in family:
        tl = timeline_rel(rel_msgs(items))
        want_roll |= roll(tl)
        want_dur = max(want_dur, tl[1])
        sig_union += [(t, m) for t, m in tl[0] if m.message_type in (MT.TIME_SIGNATURE, MT.KEY_SIGNATURE)]
    results = []
    for perm in itertools.permutations(range(len(family))):
        seqs = [rseq(family[k]) for k in perm]
        seqs[0].merge(seqs[1:])
        tl = timeline_abs(seqs[0].abs._messages)
        if roll(tl) != want_roll:
            return r.fail("sounding_union", inp, f"order {perm}: lost {sorted(want_roll - roll(tl))[:4]} gained {sorted(roll(tl) - want_roll)[:4]}")
        # adjacent notes may stay separate or be separate notes; fused notes = maximal runs only when they overlap: compare sounding set + alternation
        errs = alternation_errors(tl)
        if errs:
            return r.fail("well_formed", inp, f"order {perm}: {errs[:3]}")
        if tl[1] != want_dur:
            return r.fail("duration", inp, f"order {perm}: duration {tl[1]} expected {want_dur}")
        sig_union_sorted = sorted(sig_union, key=lambda x: x[0])
        if sig_events(tl) != sig_events((sig_union_sorted, 0)):
            return r.fail("signatures", inp, f"order {perm}: {sig_events(tl)} expected {sig_events((sig_union_sorted, 0))}")
        results.append(notes_fifo(tl, with_velocity=False))
        if types_int(seqs[0].abs._messages):
            return r.fail("int_ticks", inp, "non-integer times")
    if any(x != results[0] for x in results):
        return r.fail("order_independent", inp, f"notes differ between merge orders: {results[0][:4]} vs {[x for x in results if x != results[0]][0][:4]}")
    # overlapping notes fused from earliest start to latest end
    overl = union_intervals(want_roll)
    got = results[0]
    for c, p, a, d in got:
        if not any(c == cc and p == pp and aa <= a and a + d <= aa + dd for cc, pp, aa, dd in overl):
            return r.fail("fusion", inp, f"note {(c, p, a, d)} is not inside a maximal sounding run")


def run(r):
    rng = r.rng
    r.rules.append("families of 1-3 well-formed sequences with 0-3 notes each (overlapping, abutting, nested, same and different channels, empty sequences, different lengths, trailing rests, at most one signature change per tick), "
                   "all permutations of the merge order; enumerated 3-note overlap patterns + seeded random; distinct = distinct families")
    pat = [(0, 12), (6, 12), (12, 12), (3, 3), (0, 30), (24, 6)]
    for a in pat:
        for b in pat:
            for c in pat[:4]:
                fam = [notes_to_rel([(0, 60, a[0], a[1], 64)]), notes_to_rel([(0, 60, b[0], b[1], 100)]), notes_to_rel([(0, 60, c[0], c[1], 1)], tail=5)]
                r.case("enum3", fam); check(r, fam)
    for _ in range(400 if r.tier == "quick" else 10000):
        fam = []
        used_ticks = set()
        for _k in range(rng.randrange(1, 4)):
            notes = gen_notes(rng, rng.randrange(0, 4), channels=(0, 1), pitches=(60, 61), max_on=30, durs=(3, 6, 12, 20))
            extras = []
            if rng.random() < 0.4:
                t = rng.choice((0, 6, 12, 18, 24))
                if t not in used_ticks:
                    used_ticks.add(t)
                    extras.append((t, rng.choice((('ts', 3, 4), ('ts', 4, 4), ('ks', 'D'), ('ks', 'C')))))
            fam.append(notes_to_rel(notes, extras, rng.choice((0, 0, 9))))
        r.case("random", fam, nontrivial=any(len(f) > 0 for f in fam)); check(r, fam)


def replay(r, chk, inp):
    check(r, inp["family"])
