"""C12 bounded: sequences_save -> sequences_load round trip through a real temp file (mido is the assumed codec)."""
from common import *
import tempfile, os


def in_force(events, ticks, default_ts=(4, 4)):
    """events: [(tick, 'ts', n, d) | (tick, 'ks', name)] -> {tick: (ts, ks)}"""
    out = {}
    ev = sorted(events, key=lambda e: e[0])
    for t in ticks:
        ts, ks = default_ts, None
        for e in ev:
            if e[0] <= t:
                if e[1] == 'ts': ts = (e[2], e[3])
                else: ks = e[2]
        out[t] = (ts, ks)
    return out


@guarded
def check(r, seq_specs):
    """seq_specs: [(notes, extras, tail, shuffled)]"""
    inp = {"seqs": seq_specs}
    seqs, want_notes, sig = [], [], []
    for notes, extras, tail, shuf in seq_specs:
        items = notes_to_rel([tuple(n) for n in notes], [(t, tuple(it)) for t, it in extras], tail)
        if shuf:
            s = Sequence()
            ms = abs_msgs([(t, (m.message_type.value.replace('note_', ''),) + ((m.note, m.channel, m.velocity) if m.message_type == MT.NOTE_ON else (m.note, m.channel))) for t, m in timeline_rel(rel_msgs(items))[0] if m.message_type in (MT.NOTE_ON, MT.NOTE_OFF)])
            random.Random(len(ms)).shuffle(ms)
            for m in ms:
                s.add_absolute_message(m)
            for t, it in extras:
                mm = mk(tuple(it)); mm.time = t; s.add_absolute_message(mm)
        else:
            s = rseq(items)
        seqs.append(s)
        want_notes.append(sorted((p, on, d, v) for c, p, on, d, v in notes))
        for t, it in extras:
            sig.append((t, 'ts', it[1], it[2]) if it[0] == 'ts' else (t, 'ks', it[1]))
    with tempfile.TemporaryDirectory() as d:
        path = os.path.join(d, "x.mid")
        Sequence.sequences_save(seqs, path)
        loaded = Sequence.sequences_load(path)
    if len(loaded) != len(seqs):
        return r.fail("count", inp, f"{len(loaded)} sequences loaded, {len(seqs)} saved")
    for k, (ls, wn) in enumerate(zip(loaded, want_notes)):
        got = sorted((p, on, d, v) for c, p, on, d, v in notes_fifo(timeline_abs(ls.abs._messages)))
        if got != wn:
            notes_k, shuf_k = seq_specs[k][0], seq_specs[k][3]
            abut = any(a is not b and a[1] == b[1] and a[2] + a[3] == b[2] for a in notes_k for b in notes_k)
            return r.fail("notes", inp, f"sequence {k}: loaded {got[:5]} saved {wn[:5]}",
                          klass="D16-noncanonical-intratick-order" if (shuf_k and abut) else "notes")
        if types_int(ls.abs._messages):
            return r.fail("int_ticks", inp, "non-integer times after load")
    meta = timeline_abs(loaded[0].abs._messages)
    got_ev = [(t, 'ts', m.numerator, m.denominator) for t, m in meta[0] if m.message_type == MT.TIME_SIGNATURE] + [(t, 'ks', m.key.name) for t, m in meta[0] if m.message_type == MT.KEY_SIGNATURE]
    ticks = sorted({0} | {e[0] for e in sig} | {e[0] for e in got_ev} | {e[0] + 1 for e in sig})
    # the loaded meta sequence must state the signature explicitly (no implicit default on that side)
    if in_force(got_ev, ticks, default_ts=None) != in_force(sig, ticks):
        return r.fail("signatures_in_force", inp, f"loaded {sorted(got_ev)} saved {sorted(sig)}")
    for k, ls in enumerate(loaded[1:], 1):
        if any(m.message_type in (MT.TIME_SIGNATURE, MT.KEY_SIGNATURE) for m in ls.abs._messages):
            return r.fail("meta_only_on_meta", inp, f"sequence {k} carries signature events")


def run(r):
    rng = r.rng
    r.rules.append("seeded random lists of 1-3 well-formed sequences (0-5 notes, velocities 1..127, simultaneous events, abutting same-pitch notes, leading rests), signatures at arbitrary ticks on distinct ticks, all 15 keys cycled, "
                   "built through the relative view or by shuffled absolute insertion; real temp file through mido; distinct = distinct lists")
    for k in range(150 if r.tier == "quick" else 3000):
        specs, used = [], set()
        for s_i in range(rng.randrange(1, 4)):
            notes = [list(n) for n in gen_notes(rng, rng.randrange(0, 6), channels=(0,), pitches=(60, 61, 72), max_on=40, durs=(1, 6, 12, 30))]
            if rng.random() < 0.4 and notes:
                c, p, on, d, v = notes[0]
                if not any(nn[1] == p and nn is not notes[0] and not (nn[2] + nn[3] <= on + d or on + d + 6 <= nn[2]) for nn in notes):
                    notes.append([c, p, on + d, 6, 99])      # abutting note of the same pitch
            for n in notes:
                n[4] = rng.randrange(1, 128)
            extras = []
            for _e in range(rng.randrange(0, 3)):
                t = rng.randrange(0, 50)
                if t in used: continue
                used.add(t)
                extras.append([t, rng.choice((['ts', rng.choice((2, 3, 4, 6)), rng.choice((2, 4, 8))], ['ks', KEYS[(k + _e) % 15].name]))])
            specs.append([notes, extras, rng.choice((0, 7)), rng.random() < 0.4])
        r.case("roundtrip", specs, nontrivial=any(s[0] for s in specs)); check(r, specs)


def replay(r, chk, inp):
    check(r, inp["seqs"])
