"""C03 bounded: bar-by-bar stateful tokenisation over ALL partitions of the bar sequence into consecutive call groups
vs. tokenising the whole piece in one call."""
from tokgen import *
from b_C01 import d18_class
from scoda.elements.bar import Bar


def compositions(n):
    """all ways to group n consecutive bars: 2^(n-1)"""
    for mask in range(1 << max(n - 1, 0)):
        groups, cur = [], [0]
        for k in range(1, n):
            if mask >> (k - 1) & 1:
                groups.append(cur); cur = [k]
            else:
                cur.append(k)
        groups.append(cur)
        yield groups


def decode_all(tk, toks):
    out = tk.detokenise(tk.decode(tk.encode(toks)))
    return decoded_notes(out), [bar_marks(s) for s in out]


@guarded
def check(r, cfg, piece, use_bars):
    inp = {"cfg": cfg, "piece": piece, "use_bars": use_bars}
    tk = mk_tok(cfg)
    seqs = piece_sequences(piece)
    for s in seqs:
        s.pad(sum(piece["bars"]))
    if use_bars:
        bars = Sequence.sequences_split_bars([s.copy() for s in seqs], meta_track_index=0, quantise_note_lengths=False)
        nb = len(bars[0])
        chunk = lambda group: [Bar.to_sequence([bars[t][k] for k in group]) for t in range(len(seqs))]
    else:
        caps = piece["bars"]
        pieces = [s.split(list(caps)) for s in seqs]
        nb = len(caps)
        def chunk(group):
            out = []
            for t in range(len(seqs)):
                q = Sequence()
                q.concatenate([pieces[t][k].copy() if k < len(pieces[t]) else Sequence() for k in group])
                out.append(q)
            return out
    try:
        whole = tk.tokenise([s.copy() for s in seqs])
        ref = decode_all(tk, whole)
    except TokenisationException as ex:
        return
    want_notes, _, _ = expected(piece, tk)
    kl = "D18-last-bar-not-closed" if d18_groups(piece) else None
    for groups in compositions(nb):
        state, toks = {}, []
        try:
            for g in groups:
                toks += tk.tokenise(chunk(g), state_dict=state)
            got = decode_all(tk, toks)
        except TokenisationException as ex:
            return r.fail("chunked_fails", {**inp, "groups": groups}, f"{ex}", klass=kl or "chunked_fails")
        if got[0] != ref[0]:
            bad = [(k, a[:3], b[:3]) for k, (a, b) in enumerate(zip(got[0], ref[0])) if a != b][:1]
            return r.fail("notes_differ", {**inp, "groups": groups}, f"grouping {groups}: track/chunked/whole {bad}", klass=kl or "notes_differ")
        if got[1] != ref[1]:
            return r.fail("bar_grid_differs", {**inp, "groups": groups}, f"grouping {groups}: bar marks {got[1][0]} vs whole {ref[1][0]}", klass=kl or "bar_grid_differs")
        if got[0] != want_notes:
            return r.fail("notes_wrong", {**inp, "groups": groups}, "chunked result differs from the piece itself", klass=kl or "notes_wrong")


def d18_groups(piece):
    """known class D18 seen per call: some bar holds onsets only at bar time 0 (or none) while a note sounds up to or beyond its end"""
    starts = [sum(piece["bars"][:k]) for k in range(len(piece["bars"]) + 1)]
    for k in range(len(piece["bars"])):
        a, b = starts[k], starts[k + 1]
        ons = [on for tr in piece["tracks"] for _, _, on, _, _ in tr if a <= on < b]
        tails = [on + d for tr in piece["tracks"] for _, _, on, d, _ in tr if on < b and on + d >= b]
        if tails and all(on == a for on in ons):
            return True
    return False


def run(r):
    rng = r.rng
    r.rules.append("seeded random valid pieces of 1-5 bars (signature changes, empty bars, notes up to whole-bar length inside their bars) x random configurations x ALL 2^(n-1) groupings of consecutive bars into calls, "
                   "chunks taken as Bars (sequences_split_bars) or as raw split pieces without restated signatures; plus an exhaustive small family for the running track/value/velocity state across a call boundary (8 flag combinations x 32 note pairs, velocity bin values that coincide with note values); distinct = distinct (configuration, piece, chunking mode)")
    for k in range(120 if r.tier == "quick" else 2500):
        cfg = gen_config(rng)
        tk = mk_tok(cfg)
        piece = gen_piece(rng, cfg, tk, max_bars=5)
        piece["build"] = "rel"
        starts = [sum(piece["bars"][:j]) for j in range(len(piece["bars"]) + 1)]
        inside = lambda n: any(a <= n[2] and n[2] + n[3] <= b for a, b in zip(starts, starts[1:]))
        piece["tracks"] = [[n for n in tr if inside(n)] for tr in piece["tracks"]]      # chunks of whole bars: no note crosses a bar line
        if k % 4 == 0 and piece["tracks"]:
            piece["tracks"][0] = [n for n in piece["tracks"][0] if not (piece["bars"][0] <= n[2] < sum(piece["bars"][:2]))]     # an empty bar
        use_bars = k % 2 == 0
        r.case("partitions", [cfg, piece, use_bars], nontrivial=len(piece["bars"]) > 1); check(r, cfg, piece, use_bars)


    # running values across call boundaries: exhaustive small family (previous / next note value, velocity bin, track) x unfused flags
    for fz in itertools.product((False, True), repeat=3):
        for d0, v0, d1, v1, t1 in itertools.product((12, 24), (20, 100), (12, 24), (20, 100), (0, 1)):
            cfg = {"num_tracks": 2, "flag_running_values": True, "flag_fuse_track": fz[0], "flag_fuse_value": fz[1], "flag_fuse_velocity": fz[2], "velocity_bins": 8, "pitch_range": (21, 108), "note_values": None}
            tr = [[], []]
            tr[0].append([0, 60, 24, d0, v0]); tr[t1].append([t1, 64, 96 + 12, d1, v1]); tr[0].append([0, 65, 96 + 48, 12, 100])
            piece = {"bars": [96, 96], "sigs": [(4, 4), (4, 4)], "tracks": tr, "build": "rel"}
            r.case("running_state", [cfg, piece, True]); check(r, cfg, piece, True)
    # probe of the known class D18: a note filling a whole bar from bar time 0 (nothing advances the bar clock inside that call)
    for k in range(8):
        cfg = {"num_tracks": 1, "flag_running_values": bool(k & 1), "flag_fuse_track": True, "flag_fuse_value": bool(k & 2), "flag_fuse_velocity": True, "velocity_bins": 1, "pitch_range": (21, 108), "note_values": [2, 4, 8, 96]}
        piece = {"bars": [96, 96], "sigs": [(4, 4), (4, 4)], "tracks": [[[0, 60, 0, 96, 64], [0, 62, 96 + 8 * (k // 4), 8, 64]]], "build": "rel"}
        r.case("d18_probe", [cfg, piece, True]); check(r, cfg, piece, True)


def replay(r, chk, inp):
    check(r, inp["cfg"], inp["piece"], inp["use_bars"])
