"""bounded/run.py <Cnn> --tier quick|thorough --seed N      |     bounded/run.py <Cnn> --replay <file>
Prints one JSON line (last line of stdout)."""
import sys, os, json, argparse, importlib, traceback
sys.path.insert(0, os.path.dirname(os.path.abspath(__file__)))
import common


def main():
    ap = argparse.ArgumentParser()
    ap.add_argument("prop")
    ap.add_argument("--tier", default="quick")
    ap.add_argument("--seed", type=int, default=0)
    ap.add_argument("--replay")
    a = ap.parse_args()
    try:
        mod = importlib.import_module("b_" + a.prop)
    except ModuleNotFoundError:
        print(json.dumps({"property": a.prop, "evaluations": 0, "distinct_nontrivial": 0, "violations": [], "checks": [], "rule": "no bounded check for this property", "samples": []}))
        return 0
    if a.replay:
        doc = json.load(open(a.replay))
        r = common.Run(a.prop, "replay", 0)
        inp = doc["input"]
        if isinstance(inp, dict) and set(inp) == {"fn", "args"}:
            getattr(mod, inp["fn"])(r, *inp["args"])
        else:
            getattr(mod, "replay")(r, doc["check"], inp)
        print(json.dumps(r.out()))
        if r.violations:
            print("replay: violation reproduced:", r.violations[0]["observed"])
            return 1
        print("replay: property holds on this input")
        return 0
    r = common.Run(a.prop, a.tier, a.seed)
    try:
        mod.run(r)
    except Exception:
        r.errors.append(traceback.format_exc()[-1200:])
    print(json.dumps(r.out()))
    return 0


if __name__ == "__main__":
    sys.exit(main())
