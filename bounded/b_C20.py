"""C20 bounded/complete enumeration: 15 keys x intervals -40..40 ; 128 x 128 pitch pairs (the property's own finite domains)."""
from common import *


def _scale(k):
    return sorted(n.value for n in MusicMapping.KeyNoteMapping[k][0])


@guarded
def check_key(r, kname, t):
    k = Key[kname]
    res = Key.transpose_key(k, t)
    if res is None:
        return r.fail("transpose_key", [kname, t], "returned None")
    want_tonic = (MusicMapping.KeyNoteMapping[k][0][0].value + t) % 12
    if MusicMapping.KeyNoteMapping[res][0][0].value != want_tonic:
        return r.fail("transpose_key", [kname, t], f"tonic {MusicMapping.KeyNoteMapping[res][0][0].value} != {want_tonic}")
    if _scale(res) != sorted((x + t) % 12 for x in _scale(k)):
        return r.fail("transpose_key", [kname, t], "scale is not the shifted scale")


@guarded
def check_additive(r, kname, s, t):
    k = Key[kname]
    a = Key.transpose_key(Key.transpose_key(k, s), t)
    b = Key.transpose_key(k, s + t)
    if a is None or b is None or _scale(a) != _scale(b):
        r.fail("additive", [kname, s, t], f"{a} vs {b}")


@guarded
def check_pair(r, a, b):
    d = CircleOfFifths.get_distance(a, b)
    if not (-5 <= d <= 6):
        return r.fail("get_distance", [a, b], f"distance {d} outside [-5, 6]")
    if (d - (CircleOfFifths.get_position(b) - CircleOfFifths.get_position(a))) % 12 != 0:
        return r.fail("get_distance", [a, b], "not congruent to the position difference")
    if CircleOfFifths.from_distance(a, d) != b % 12:
        return r.fail("from_distance", [a, b], f"lands on {CircleOfFifths.from_distance(a, d)} instead of {b % 12}")


def run(r):
    r.rules.append("complete: 15 keys x intervals -40..40, additivity on 15 x 25 x 25, all 128 x 128 pitch pairs; distinct = distinct argument tuples")
    for k in KEYS:
        for t in range(-40, 41):
            r.case("transpose_key", [k.name, t]); check_key(r, k.name, t)
        for s in range(-12, 13):
            for t in range(-12, 13):
                r.case("additive", [k.name, s, t]); check_additive(r, k.name, s, t)
    for a in range(128):
        for b in range(128):
            r.case("pitch_pair", [a, b]); check_pair(r, a, b)


def replay(r, check, inp):
    {"transpose_key": check_key, "additive": check_additive, "get_distance": check_pair, "from_distance": check_pair, "pitch_pair": check_pair}[check](r, *inp)
