"""C05 bounded: AbsoluteSequence.quantise / Sequence.quantise on enumerated + seeded random well-formed sequences x step lists."""
from common import *
from scoda.misc.util import get_default_step_sizes


def cands(t, steps):
    out = []
    for s in steps:
        out += [(t // s) * s, (t // s) * s + s]
    return out


@guarded
def check(r, notes, extras, steps):
    inp = {"notes": notes, "extras": extras, "steps": steps}
    st = steps if steps is not None else get_default_step_sizes()
    S = max(st)
    ev = []
    for c, p, on, d, v in notes:
        ev.append((on, ('on', p, c, v))); ev.append((on + d, ('off', p, c)))
    for t, it in extras:
        ev.append((t, tuple(it)))
    s = aseq(sorted(ev, key=lambda x: (x[0], 0 if x[1][0] == 'off' else 1)))
    s.abs.sort()
    orig = {id(m): (m.time,) + desc(m) for m in s.abs._messages}
    non_note0 = sorted(id(m) for m in s.abs._messages if m.message_type not in (MT.NOTE_ON, MT.NOTE_OFF))
    s.quantise(list(steps) if steps is not None else None)
    msgs = s.abs._messages
    for m in msgs:
        if not any(m.time % x == 0 for x in st):
            return r.fail("grid", inp, f"{desc(m)} at tick {m.time} is on no grid")
        if id(m) in orig and abs(m.time - orig[id(m)][0]) > S:
            return r.fail("displacement", inp, f"{desc(m)} moved from {orig[id(m)][0]} to {m.time} (max step {S})")
        if id(m) in orig and desc(m) != orig[id(m)][1:]:
            return r.fail("attributes", inp, f"{orig[id(m)]} became {desc(m)}")
    if types_int(msgs):
        return r.fail("int_ticks", inp, types_int(msgs))
    if sorted(id(m) for m in msgs if m.message_type not in (MT.NOTE_ON, MT.NOTE_OFF)) != non_note0:
        return r.fail("non_note_kept", inp, "a non-note event was dropped or added")
    tl = timeline_abs(msgs)
    errs = alternation_errors(tl)
    if errs:
        return r.fail("pairing", inp, errs[:3])
    got = notes_fifo(tl)
    if any(d <= 0 for _, _, _, d, _ in got):
        return r.fail("positive_duration", inp, f"{got}")
    # survival of isolated notes
    for i, (c, p, on, d, v) in enumerate(notes):
        others = [(o, o + dd) for j, (cc, pp, o, dd, _) in enumerate(notes) if j != i and (cc, pp) == (c, p)]
        if any(not (b + 2 * S <= on or on + d + 2 * S <= a) for a, b in others):
            continue
        mine = [n for n in got if n[0] == c and n[1] == p and abs(n[2] - on) <= S]
        if mine:
            if mine[0][4] != v:
                return r.fail("survivor_attributes", inp, f"velocity {mine[0][4]} != {v}")
            continue
        con = cands(on, st)
        best = min(abs(x - on) for x in con)
        coff = cands(on + d, st)
        if not any(abs(q - on) == best and all(x <= q for x in coff) for q in con):
            return r.fail("survival", inp, f"isolated note {(c, p, on, d)} dropped although an end position after its quantised start exists")


def run(r):
    rng = r.rng
    step_lists = [[6], [4, 6], [6, 4], [24], [3], [2, 3, 4, 6, 8, 12, 16, 24], None, [5], [12, 8]]
    r.rules.append("exhaustive small scope: all 2-note inputs with (channel, pitch) in {same, other channel, other pitch}, onsets 0..18 step 1 subset and durations {1,2,5,7} + up to 2 control changes, x 9 step lists; "
                   "plus seeded random sequences (1-6 notes, 3 channels, very short notes, ties between grid points, non-note events); distinct = distinct (sequence, steps)")
    ons = (0, 1, 5, 6, 7, 11, 16, 17) if r.tier == "quick" else tuple(range(0, 20))
    for on1 in ons:
        for d1 in (1, 2, 7):
            for (c2, p2) in ((0, 60), (1, 60), (0, 61)):
                for on2 in ons:
                    for d2 in (1, 5):
                        if (c2, p2) == (0, 60) and not (on1 + d1 <= on2 or on2 + d2 <= on1):
                            continue
                        notes = [[0, 60, on1, d1, 64], [c2, p2, on2, d2, 100]]
                        for steps in ([6], [4, 6], [3]):
                            for extras in ([], [[18, ['cc', 1, 1]], [30, ['cc', 2, 2]]]):
                                r.case("enum2", [notes, extras, steps]); check(r, notes, extras, steps)
    for _ in range(1500 if r.tier == "quick" else 40000):
        notes = [list(n) for n in gen_notes(rng, rng.randrange(1, 7), channels=(0, 1, 2), pitches=(60, 61), max_on=60, durs=(1, 2, 3, 5, 6, 7, 12, 25))]
        extras = [[rng.randrange(0, 70), rng.choice((['cc', 1, 2], ['ks', 'D'], ['ts', 3, 4], ['pc', 5]))] for _ in range(rng.randrange(0, 3))]
        steps = rng.choice(step_lists)
        r.case("random", [notes, extras, steps]); check(r, notes, extras, steps)


def replay(r, chk, inp):
    check(r, inp["notes"], inp["extras"], inp["steps"])
