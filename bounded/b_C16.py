"""C16 bounded: copies / split pieces / bars are independent of their source under later operations on either side."""
from common import *
from scoda.elements.bar import Bar
from scoda.elements.track import Track
from scoda.elements.composition import Composition

MUT = ["transpose", "set_channel", "pad", "quantise", "iter_rel", "iter_abs", "scale", "normalise", "cutoff", "qnl", "add"]


def mutate(s, op, rng):
    if op == "transpose": s.transpose(rng.choice((1, -2, 60)))
    elif op == "set_channel": s.set_channel(rng.choice((3, 4)))
    elif op == "pad": s.pad(500)
    elif op == "quantise": s.quantise([rng.choice((4, 6))])
    elif op == "iter_rel":
        for m in s.messages_rel():
            if m.message_type == MT.WAIT: m.time += 1
            if m.note is not None: m.note += 1
    elif op == "iter_abs":
        for m in s.messages_abs():
            m.time += 2
    elif op == "scale": s.scale(2, quantise_afterwards=False)
    elif op == "normalise": s.normalise()
    elif op == "cutoff": s.cutoff(2, 1)
    elif op == "qnl": s.quantise_note_lengths([3])
    elif op == "add":
        s.add_relative_message(Message(message_type=MT.WAIT, time=9)); s.add_absolute_message(Message(message_type=MT.NOTE_ON, note=30, time=1, velocity=9))


def snap(s):
    c = s.copy() if False else None
    a = canon(timeline_abs(Sequence(relative_sequence=RelativeSequence([m.copy() for m in s.rel._messages])).abs._messages)) if not s._rel_stale else None
    b = canon(timeline_abs(s._abs._messages)) if not s._abs_stale else None
    return a, b


def both_views(s):
    """content through both views without changing the freshness state of s (works on a private deep copy)"""
    import copy as _c
    d = _c.deepcopy(s)
    va = canon(timeline_abs(d.abs._messages))
    d2 = _c.deepcopy(s)
    vr = canon(timeline_rel(d2.rel._messages))
    return va, vr


def seqs_of(obj):
    if isinstance(obj, Sequence): return [obj]
    if isinstance(obj, Bar): return [obj.sequence]
    if isinstance(obj, Track): return [b.sequence for b in obj.bars]
    if isinstance(obj, Composition): return [b.sequence for t in obj.tracks for b in t.bars]
    if isinstance(obj, list): return [x for o in obj for x in seqs_of(o)]
    raise TypeError(obj)


@guarded
def check(r, items, route, seed):
    inp = {"items": items, "route": route, "seed": seed}
    rng = random.Random(seed)
    src = rseq(items)
    if rng.random() < 0.5:
        src.abs
    if route == "seq_copy":
        orig, der = src, src.copy()
    elif route in ("bar_copy", "track_copy", "comp_copy"):
        bars = Sequence.sequences_split_bars([src], quantise_note_lengths=False)[0]
        orig = bars[0] if route == "bar_copy" else (Track(bars) if route == "track_copy" else Composition([Track(bars)]))
        der = orig.copy()
    elif route == "split":
        orig, der = src, src.split([7, 12])
    elif route == "bars_q":
        orig, der = src, Sequence.sequences_split_bars([src], quantise_note_lengths=True)[0]
    elif route == "bars_nq":
        orig, der = src, Sequence.sequences_split_bars([src], quantise_note_lengths=False)[0]
    so, sd = seqs_of(orig), seqs_of(der)
    if route.endswith("_copy") and [both_views(x) for x in so] != [both_views(x) for x in sd]:
        return r.fail("copy_equal", inp, "the copy's content differs from the original's")
    ids_o = {id(m) for s in so for v in (getattr(s, "_abs", None), getattr(s, "_rel", None)) if v is not None for m in v._messages}
    ids_d = {id(m) for s in sd for v in (getattr(s, "_abs", None), getattr(s, "_rel", None)) if v is not None for m in v._messages}
    if ids_o & ids_d:
        return r.fail("shared_objects", inp, f"{len(ids_o & ids_d)} message objects are shared between original and derived value")
    for side, (mut, keep) in (("derived", (sd, so)), ("original", (so, sd))):
        before = [both_views(x) for x in keep]
        for s in mut:
            for _ in range(2):
                op = rng.choice(MUT)
                try:
                    mutate(s, op, rng)
                except Exception as ex:
                    pass
        after = [both_views(x) for x in keep]
        if before != after:
            return r.fail("independent", inp, f"operating on the {side} side changed the other side")
        for x in keep:
            va, vr = both_views(x)
            if va != vr:
                return r.fail("views_agree", inp, "untouched side's two views disagree")


def run(r):
    rng = r.rng
    routes = ["seq_copy", "bar_copy", "track_copy", "comp_copy", "split", "bars_q", "bars_nq"]
    r.rules.append("seeded random well-formed sources x 7 derivation routes (copy at every level, split, bar splitting with either re-quantisation setting) x 2 random mutating operations per derived sequence out of 11, "
                   "then the same on the original; both views of the untouched side compared before/after via a deep copy; distinct = distinct (source, route, seed)")
    for k in range(350 if r.tier == "quick" else 7000):
        notes = gen_notes(rng, rng.randrange(1, 6), channels=(0, 1), pitches=(60, 62, 65), grid=6, max_on=30, durs=(1, 2, 4))
        items = notes_to_rel(notes, [(0, ('ts', 4, 4))] if rng.random() < 0.5 else [], rng.choice((0, 6)))
        if k % 11 == 10:
            items = [] if k % 2 else [12]          # a sequence without any message / with a rest only
        route = routes[k % len(routes)]
        seed = rng.randrange(10 ** 9)
        r.case(route, [items, seed]); check(r, items, route, seed)


    a, b = rseq([['on', 60, 0, 64], 24, ['off', 60, 0]]), rseq([['on', 62, 0, 64], 24, ['off', 62, 0]])
    a.concatenate([b])
    r.case("d8_probe", ["concatenate"])
    if {id(m) for m in a.rel._messages} & {id(m) for m in b.rel._messages}:
        r.fail("d8_probe", {"probe": "a.concatenate([b])"}, "a holds b's message objects", klass="D8-concatenate-shares-messages")


def replay(r, chk, inp):
    if chk == "d8_probe":
        return
    check(r, inp["items"], inp["route"], inp["seed"])
