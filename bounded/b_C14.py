"""C14 bounded: transposition on sequences and bars, near both range limits, all kinds of intervals."""
from common import *
from scoda.elements.bar import Bar
from scoda.settings.settings import NOTE_LOWER_BOUND as LB, NOTE_UPPER_BOUND as UB

TONIC = {"C": 0, "G": 7, "D": 2, "A": 9, "E": 4, "B": 11, "F_S": 6, "C_S": 1, "F": 5, "B_B": 10, "E_B": 3, "A_B": 8, "D_B": 1, "G_B": 6, "C_B": 11}


@guarded
def check(r, items, t, as_bar=False, keyname=None):
    inp = {"items": items, "t": t, "bar": as_bar, "key": keyname}
    s = rseq(items)
    if as_bar:
        s.pad(96)
        obj = Bar(s, 4, 4, Key[keyname] if keyname else None)
        seq = obj.sequence
    else:
        obj = seq = s
    before, dur0 = timeline_rel(seq.rel._messages)
    b_notes = notes_fifo((before, dur0))
    b_keys = [(tk, m.key.name) for tk, m in before if m.message_type == MT.KEY_SIGNATURE]
    must_move = any(not (LB <= p + t <= UB) for _, p, _, _, _ in b_notes)
    shifted = obj.transpose(t)
    after, dur1 = timeline_rel(seq.rel._messages)
    a_notes = notes_fifo((after, dur1))
    bad = [n for n in a_notes if not (LB <= n[1] <= UB)]
    if bad:
        return r.fail("range", inp, f"notes out of range {bad[:3]}")
    if bool(shifted) != must_move:
        return r.fail("flag", inp, f"returned {shifted}, octave move needed: {must_move}")
    a_keys = [(tk, m.key.name if m.key is not None else None) for tk, m in after if m.message_type == MT.KEY_SIGNATURE]
    if not shifted:
        want = sorted((c, p + t, on, d, v) for c, p, on, d, v in b_notes)
        if sorted(a_notes) != want:
            return r.fail("exact_shift", inp, f"notes {a_notes[:4]} expected {want[:4]}")
        if dur1 != dur0:
            return r.fail("exact_shift", inp, "duration changed")
        back = obj.transpose(-t)
        again = notes_fifo(timeline_rel(seq.rel._messages))
        if back or sorted(again) != sorted(b_notes):
            return r.fail("roundtrip", inp, f"transposing back gives {again[:4]}")
        obj.transpose(t)
    else:
        classes = {(c, (p + t) % 12) for c, p, _, _, _ in b_notes}
        if any((c, p % 12) not in classes for c, p, _, _, _ in a_notes):
            return r.fail("pitch_class", inp, "a resulting note is not the image of an original note")
    if len(a_keys) != len(b_keys) or any(k is None for _, k in a_keys):
        return r.fail("key_defined", inp, f"key signatures after: {a_keys}")
    for (_, k0), (_, k1) in zip(b_keys, a_keys):
        if TONIC[k1] != (TONIC[k0] + t) % 12:
            return r.fail("key_transposed", inp, f"{k0} -> {k1} by {t}")
    if as_bar and keyname:
        k1 = obj.key_signature
        if k1 is None or TONIC[k1.name] != (TONIC[keyname] + t) % 12:
            return r.fail("bar_key", inp, f"bar key {keyname} -> {k1} by {t}")


def run(r):
    rng = r.rng
    n = 400 if r.tier == "quick" else 6000
    r.rules.append(f"{n} seeded random sequences/bars (1-5 paired notes, pitches near both limits and mid-range, optional key signature out of all 15) x intervals from "
                   "{0, +-1, +-2, +-5, +-7, +-11, +-12, +-13, +-24, +-36, +-87, +-88, +-100, +-200}; plus the grid 15 keys x 25 intervals; distinct = distinct (input, interval)")
    ivs = [0, 1, -1, 2, -2, 5, -5, 7, -7, 11, -11, 12, -12, 13, -13, 24, -24, 36, -36, 87, -87, 88, -88, 100, -100, 200, -200]
    for k in KEYS:
        for t in range(-12, 13):
            items = [['ks', k.name], ['on', 60, 0, 64], 24, ['off', 60, 0]]
            r.case("keys", [k.name, t]); check(r, items, t)
            r.case("bar_keys", [k.name, t]); check(r, items, t, as_bar=True, keyname=k.name)
    for _ in range(n):
        pitches = rng.choice([(21, 22, 23, 32), (108, 107, 97, 96), (60, 64, 21, 108), (50, 55, 59)])
        notes = gen_notes(rng, rng.randrange(1, 6), channels=(0, 1), pitches=pitches, max_on=40)
        extras = [(rng.choice((0, 12, 24)), ('ks', rng.choice(KEYS).name))] if rng.random() < 0.5 else []
        items = notes_to_rel(notes, extras)
        t = rng.choice(ivs)
        r.case("random", [items, t]); check(r, items, t)


def replay(r, chk, inp):
    check(r, inp["items"], inp["t"], inp.get("bar", False), inp.get("key"))
