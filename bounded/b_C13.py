"""C13 bounded: files written directly with mido (any ticks-per-beat, delta patterns, note_on velocity 0) loaded through
Sequence.sequences_load with all track groupings / meta selections / meta targets; exact positions by fractions.Fraction."""
from common import *
import tempfile, os, mido
from fractions import Fraction
from scoda.settings.settings import PPQN


@guarded
def check(r, tpb, tracks, groups, meta_idx, target):
    """tracks: [[(delta, kind, args...)]] with kind in on/off/on0/ts/ks"""
    inp = {"tpb": tpb, "tracks": tracks, "groups": groups, "meta": meta_idx, "target": target}
    mf = mido.MidiFile(); mf.ticks_per_beat = tpb
    exp_notes = []     # per file track: roll over exact positions rounded
    exp_sig = []
    for ti, evs in enumerate(tracks):
        tr = mido.MidiTrack(); mf.tracks.append(tr)
        ft = 0
        tl = []
        for ev in evs:
            delta, kind = ev[0], ev[1]
            ft += delta
            pos = Fraction(ft * PPQN, tpb)
            if kind == 'on':
                tr.append(mido.Message('note_on', note=ev[2], velocity=ev[3], channel=ev[4], time=delta)); tl.append((pos, 'on', ev[4], ev[2]))
            elif kind == 'off':
                tr.append(mido.Message('note_off', note=ev[2], velocity=64, channel=ev[3], time=delta)); tl.append((pos, 'off', ev[3], ev[2]))
            elif kind == 'on0':
                tr.append(mido.Message('note_on', note=ev[2], velocity=0, channel=ev[3], time=delta)); tl.append((pos, 'off', ev[3], ev[2]))
            elif kind == 'ts':
                tr.append(mido.MetaMessage('time_signature', numerator=ev[2], denominator=ev[3], time=delta))
                if ti in meta_idx or any(ti in g for g in groups): exp_sig.append((pos, 'ts', ev[2], ev[3]))
            elif kind == 'ks':
                tr.append(mido.MetaMessage('key_signature', key=ev[2], time=delta))
                if ti in meta_idx or any(ti in g for g in groups): exp_sig.append((pos, 'ks', ev[2]))
        exp_notes.append(tl)
    with tempfile.TemporaryDirectory() as d:
        path = os.path.join(d, "x.mid"); mf.save(path)
        try:
            out = Sequence.sequences_load(path, track_indices=[list(g) for g in groups], meta_track_indices=list(meta_idx), target_meta_track_index=target)
        except ValueError:
            if 0 <= target < len(groups):
                return r.fail("spurious_value_error", inp, "valid meta target rejected")
            return
    if not (0 <= target < len(groups)):
        return r.fail("invalid_target_accepted", inp, f"meta target {target} accepted for {len(groups)} groups")
    if len(out) != len(groups):
        return r.fail("group_count", inp, f"{len(out)} sequences for {len(groups)} groups")
    near = lambda pos, t: abs(Fraction(t) - pos) <= Fraction(1, 2)
    for gi, g in enumerate(groups):
        tl = timeline_abs(out[gi].abs._messages)
        # expected sounding set: union over the group's tracks, with every event at a nearest tick.  Use round-half-even as the
        # reference and accept either neighbour on exact .5 ties by comparing events individually.
        exp_roll = set()
        ev_expected = []
        for ti in g:
            rl = sorted(exp_notes[ti], key=lambda e: e[0])
            tlx = [(round(e[0]), Message(message_type=MT.NOTE_ON if e[1] == 'on' else MT.NOTE_OFF, channel=e[2], note=e[3])) for e in rl]
            exp_roll |= roll((tlx, 0))
            ev_expected += rl
        got_roll = roll(tl)
        ties = any(e[0].denominator == 2 for e in ev_expected)
        if got_roll != exp_roll and not ties:
            # known class D19: a note whose on and off round to the same tick (zero length after rescaling)
            zero = False
            for ti in g:
                open_ = {}
                for e in sorted(exp_notes[ti], key=lambda e: e[0]):
                    k_ = (e[2], e[3])
                    if e[1] == 'on': open_.setdefault(k_, []).append(round(e[0]))
                    elif open_.get(k_):
                        if open_[k_].pop(0) == round(e[0]): zero = True
            return r.fail("group_sounding_set", inp, f"group {gi}: lost {sorted(exp_roll - got_roll)[:4]} gained {sorted(got_roll - exp_roll)[:4]}",
                          klass="D19-zero-length-note-after-rescale" if zero else "group_sounding_set")
        for t, m in tl[0]:
            if m.message_type in (MT.NOTE_ON, MT.NOTE_OFF):
                kind = 'on' if m.message_type == MT.NOTE_ON else 'off'
                if not any(e[1] == kind and e[2] == m.channel and e[3] == m.note and near(e[0], t) for e in ev_expected):
                    return r.fail("nearest_tick", inp, f"group {gi}: {kind} {m.note} at tick {t} is not within half a tick of any file event of this group")
    for gi in range(len(groups)):
        sigs = [(t, m) for t, m in timeline_abs(out[gi].abs._messages)[0] if m.message_type in (MT.TIME_SIGNATURE, MT.KEY_SIGNATURE)]
        if gi != target and sigs:
            return r.fail("meta_on_target_only", inp, f"group {gi} carries signature events")
        if gi == target:
            for pos, kind, *a in exp_sig:
                ok = any(near(pos, t) and ((kind == 'ts' and m.message_type == MT.TIME_SIGNATURE and (m.numerator, m.denominator) == tuple(a)) or
                                           (kind == 'ks' and m.message_type == MT.KEY_SIGNATURE and m.key == MusicMapping.KeyKeyMapping[a[0]])) for t, m in sigs)
                # a signature that repeats the one in force may be dropped by normalisation
                if not ok and not any(e is not None for e in ()):
                    prev = [e for e in exp_sig if e[1] == kind and e[0] <= pos and e is not (pos, kind, *a)]
                    same_as_prev = any((tuple(e[2:]) == tuple(a) or (kind == 'ks' and MusicMapping.KeyKeyMapping[e[2]] == MusicMapping.KeyKeyMapping[a[0]])) and e[0] <= pos and e is not None for e in exp_sig if e[1] == kind and (e[0], e[2:]) != (pos, tuple(a)))
                    if not same_as_prev and not (kind == 'ts' and tuple(a) == (4, 4) and pos == 0):
                        return r.fail("signature_routed", inp, f"{kind} {a} at {float(pos)} missing on the meta sequence {[(t, m.message_type.value) for t, m in sigs]}")
            if not any(t == 0 and m.message_type == MT.TIME_SIGNATURE for t, m in sigs):
                return r.fail("default_signature", inp, "no time signature at tick 0 on the meta sequence")


def gen_track(rng, n_notes, with_sig, chan, tpb=24, short=False):
    evs, pend = [], []
    unit = -(-tpb // 24)          # file ticks per library tick, rounded up
    for _ in range(n_notes):
        evs.append([rng.choice((0, 1, 7, 53, 100, 241)), 'on', rng.choice((60, 62, 64)), rng.randrange(1, 128), chan])
        length = rng.choice((1, 13, 97, 480)) if short else unit * rng.choice((1, 2, 5)) + rng.choice((0, 1, 7))
        evs.append([length, rng.choice(('off', 'on0')), evs[-1][2], chan])
    if with_sig:
        evs.insert(0, [0, 'ts', rng.choice((3, 4, 6)), rng.choice((4, 8))])
        if rng.random() < 0.5:
            evs.insert(rng.randrange(0, len(evs)), [rng.choice((0, 30)), 'ks', rng.choice(("C", "G", "Bb", "F#m", "Am"))])
    return evs


def run(r):
    rng = r.rng
    tpbs = [24, 48, 96, 120, 192, 384, 480, 960, 1000, 220, 1024, 15360, 7]
    r.rules.append("seeded random files written with mido: 13 resolutions (incl. 7, 220, 1000, 1024, 15360), 1-4 tracks of up to 40 note events with irregular deltas, note_off and note_on-velocity-0, signatures; "
                   "x random groupings (incl. uncovered tracks, merged groups), meta selections and meta targets (incl. invalid); long tracks for drift; distinct = distinct (file, grouping)")
    for k in range(120 if r.tier == "quick" else 3000):
        tpb = tpbs[k % len(tpbs)]
        nt = rng.randrange(1, 5)
        tracks = [gen_track(rng, rng.choice((1, 3, 40 if k % 5 == 0 else 6)), rng.random() < 0.5, chan=rng.choice((0, 1)), tpb=tpb, short=(k % 4 == 3)) for ti in range(nt)]
        idx = list(range(nt)); rng.shuffle(idx)
        cut = rng.randrange(1, nt + 1)
        used = idx[:cut]
        groups, cur = [], []
        for ti in used:
            cur.append(ti)
            if rng.random() < 0.6:
                groups.append(cur); cur = []
        if cur: groups.append(cur)
        meta_idx = [ti for ti in range(nt) if rng.random() < 0.7]
        target = rng.choice(list(range(len(groups))) + ([len(groups)] if rng.random() < 0.1 else []))
        r.case("file", [tpb, tracks, groups, meta_idx, target]); check(r, tpb, tracks, groups, meta_idx, target)


def replay(r, chk, inp):
    check(r, inp["tpb"], inp["tracks"], inp["groups"], inp["meta"], inp["target"])
