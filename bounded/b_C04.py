"""C04 bounded: seeded random histories over the public Sequence alphabet from all three freshness states.
After every step a *copy* of the sequence is read through both views and the two timelines are compared
(reading the copy does not disturb the freshness state of the sequence under test)."""
from common import *

OPS = ["pad", "set_channel", "transpose", "normalise", "quantise", "qnl", "cutoff", "add_abs", "add_rel", "ow_abs", "ow_rel", "copy", "refresh",
       "read_abs", "read_rel", "iter_abs", "iter_rel", "merge", "concat_copy", "scale", "split0", "equals", "readers"]


def views_agree(s):
    c = s.copy()
    a = canon(timeline_abs(c.abs._messages))
    r_ = canon(timeline_rel(c.rel._messages))
    c2 = s.copy()
    r2 = canon(timeline_rel(c2.rel._messages))
    a2 = canon(timeline_abs(c2.abs._messages))
    if a != r_:
        return f"abs-first: abs {a} vs rel {r_}"
    if a2 != r2 or a != a2:
        return f"rel-first: abs {a2} vs rel {r2} (abs-first {a})"
    return None


def apply(s, op, rng, log):
    if op == "pad":
        n = rng.choice((0, 10, 50, 100)); log.append(["pad", n]); s.pad(n)
    elif op == "set_channel":
        c = rng.choice((0, 1, 2)); log.append(["set_channel", c]); s.set_channel(c)
    elif op == "transpose":
        t = rng.choice((-13, -1, 0, 1, 12, 50)); log.append(["transpose", t]); s.transpose(t)
    elif op == "normalise":
        log.append(["normalise"]); s.normalise()
    elif op == "quantise":
        st = rng.choice(([6], [4, 6], [3], None)); log.append(["quantise", st]); s.quantise(st)
    elif op == "qnl":
        nv = rng.choice(([6, 12, 24], [3, 4], None)); log.append(["qnl", nv]); s.quantise_note_lengths(nv)
    elif op == "cutoff":
        m = rng.choice((3, 12)); log.append(["cutoff", m]); s.cutoff(m, m)
    elif op == "add_abs":
        t, p = rng.randrange(0, 60), rng.choice((60, 61)); log.append(["add_abs", t, p])
        s.add_absolute_message(Message(message_type=MT.NOTE_ON, note=p, time=t, velocity=64))
        s.add_absolute_message(Message(message_type=MT.NOTE_OFF, note=p, time=t + rng.choice((1, 6, 24))))
    elif op == "add_rel":
        w = rng.choice((1, 5, 24)); log.append(["add_rel", w])
        s.add_relative_message(Message(message_type=MT.WAIT, time=w))
        s.add_relative_message(Message(message_type=MT.CONTROL_CHANGE, control=1, velocity=2))
    elif op == "ow_abs":
        log.append(["ow_abs"]); s.overwrite_absolute_messages(abs_msgs([(0, ('on', 70, 0, 64)), (12, ('off', 70, 0)), (20, ('int',))]))
    elif op == "ow_rel":
        log.append(["ow_rel"]); s.overwrite_relative_messages(rel_msgs([('on', 71, 0, 64), 6, ('off', 71, 0), 6]))
    elif op == "copy":
        log.append(["copy"]); return s.copy()
    elif op == "refresh":
        log.append(["refresh"]); s.refresh()
    elif op == "read_abs":
        log.append(["read_abs"]); s.abs
    elif op == "read_rel":
        log.append(["read_rel"]); s.rel
    elif op == "iter_abs":
        d = rng.choice((0, 3, 30)); log.append(["iter_abs", d])
        for k, m in enumerate(s.messages_abs()):
            if m.message_type == MT.NOTE_OFF and k % 2 == 0:
                m.time += d
    elif op == "iter_rel":
        d = rng.choice((1, 2)); log.append(["iter_rel", d])
        for m in s.messages_rel():
            if m.message_type == MT.WAIT:
                m.time += d
    elif op == "merge":
        log.append(["merge"]); s.merge([rseq([5, ['on', 65, 0, 64], 10, ['off', 65, 0], 3])])
    elif op == "concat_copy":
        log.append(["concat_copy"]); s.concatenate([rseq([['on', 66, 0, 64], 7, ['off', 66, 0]])])
    elif op == "scale":
        k = rng.choice((1, 2, 3)); log.append(["scale", k]); s.scale(k, quantise_afterwards=False)
    elif op == "split0":
        log.append(["split0"]); s.split([10, 10])
    elif op == "equals":
        log.append(["equals"]); s.equals(s.copy())
    elif op == "readers":
        log.append(["readers"]); s.get_message_pairings(); s.is_empty(); s.get_interleaved_message_pairings(); s.get_sequence_duration_relation()
    return s


def start(kind, items):
    s = rseq(items)
    if kind == "abs":
        s.abs; s.invalidate_rel()
    elif kind == "both":
        s.abs
    return s


def history(r, seed, length):
    rng = random.Random(seed)
    notes = gen_notes(rng, rng.randrange(0, 5), channels=(0, 1), pitches=(60, 61, 62), max_on=40)
    items = notes_to_rel(notes, [(0, ('ts', 3, 4))] if rng.random() < 0.3 else [], rng.choice((0, 7)))
    kind = rng.choice(("rel", "abs", "both"))
    s = start(kind, items)
    log = [["start", kind, items]]
    for _ in range(length):
        op = rng.choice(OPS)
        try:
            s = apply(s, op, rng, log)
            err = views_agree(s)
        except Exception as ex:
            err = f"{type(ex).__name__}: {ex}"
        if err:
            return log, err
    return log, None


def run(r):
    n = 400 if r.tier == "quick" else 8000
    r.rules.append(f"{n} seeded random histories of 1-8 operations over {len(OPS)} public operations, start states rel-fresh / abs-fresh / both-fresh; "
                   "after every step both views of a copy are compared as canonical timed-event lists + duration; distinct = distinct histories")
    for k in range(n):
        seed = r.seed * 1000003 + k
        L = 1 + k % 8
        log, err = history(r, seed, L)
        r.case("history", log, nontrivial=len(log) > 1)
        if err:
            r.fail("history", {"seed": seed, "length": L, "log": log}, err)


    # probe of the known class D8: concatenate shares the other sequence's message objects
    a, b = rseq([['on', 60, 0, 64], 24, ['off', 60, 0]]), rseq([['on', 62, 0, 64], 24, ['off', 62, 0]])
    a.concatenate([b]); a.abs; b.transpose(1)
    r.case("d8_probe", ["concatenate", "other.transpose"])
    if canon(timeline_abs(a.abs._messages)) != canon(timeline_rel(a.rel._messages)):
        r.fail("d8_probe", {"probe": "a.concatenate([b]); a.abs; b.transpose(1)"}, "a's two views disagree after operating on b", klass="D8-concatenate-shares-messages")


def replay(r, chk, inp):
    if chk == "d8_probe":
        return
    log, err = history(r, inp["seed"], inp["length"])
    if err:
        r.fail("history", inp, err)
