"""C02 bounded: the vocabulary side is finite per configuration and is enumerated completely over a configuration lattice;
tokenise output membership on generated pieces."""
from tokgen import *


@guarded
def check_vocab(r, cfg):
    inp = {"cfg": cfg}
    tk = mk_tok(cfg)
    dup_bins = len(set(tk.velocity_bins)) < len(tk.velocity_bins)
    kl = "D6-duplicate-velocity-bins" if dup_bins else None
    d, inv = tk.dictionary, tk.inverse_dictionary
    ids = sorted(d.values())
    if ids != list(range(len(d))):
        return r.fail("ids_consecutive", inp, f"{len(d)} entries, ids not 0..n-1 (first gaps: {[i for i, x in enumerate(ids) if i != x][:3]})", klass=kl or "ids_consecutive")
    if tk.dictionary_size != len(d):
        return r.fail("size", inp, f"dictionary_size {tk.dictionary_size} != entries {len(d)}", klass=kl or "size")
    if len(inv) != len(d) or any(inv[i] != t for t, i in d.items()):
        return r.fail("inverse", inp, "inverse_dictionary is not the inverse map", klass=kl or "inverse")
    toks = list(d)
    if tk.decode(tk.encode(toks)) != toks or tk.encode(tk.decode(list(range(len(d))))) != list(range(len(d))):
        return r.fail("encode_decode", inp, "encode/decode are not mutually inverse on the vocabulary", klass=kl or "encode_decode")
    # independent vocabulary from the configuration
    want = {"pad", "sta", "sto", "bar"} | {f"rst_{s:02}" for s in tk.step_sizes} | {f"tsg_{n:02}_08" for n in range(tk.time_signature_range[0], tk.time_signature_range[1] + 1)}
    parts = []
    if cfg["flag_fuse_track"]: parts.append([f"trk_{t:02}" for t in range(cfg["num_tracks"])])
    else: want |= {f"trk_{t:02}" for t in range(cfg["num_tracks"])}
    parts.append([f"pit_{p:03}" for p in range(cfg["pitch_range"][0], cfg["pitch_range"][1] + 1)])
    if cfg["flag_fuse_value"]: parts.append([f"val_{v:02}" for v in tk.note_values])
    else: want |= {f"val_{v:02}" for v in tk.note_values}
    if cfg["flag_fuse_velocity"]: parts.append([f"vel_{v:03}" for v in tk.velocity_bins])
    else: want |= {f"vel_{v:03}" for v in tk.velocity_bins}
    want |= {"-".join(c) for c in itertools.product(*parts)}
    if set(d) != want:
        return r.fail("vocabulary_set", inp, f"missing {sorted(want - set(d))[:3]} unexpected {sorted(set(d) - want)[:3]}", klass=kl or "vocabulary_set")
    for t in toks:
        try:
            tk.detokenise([t])
        except Exception as ex:
            return r.fail("detokenise_accepts", inp, f"token {t!r}: {type(ex).__name__}: {ex}")


@guarded
def check_emitted(r, cfg, piece):
    inp = {"cfg": cfg, "piece": piece}
    tk = mk_tok(cfg)
    try:
        toks = tk.tokenise(piece_sequences(piece))
    except TokenisationException:
        return        # acceptance is C01's business
    missing = [t for t in toks if t not in tk.dictionary]
    if missing:
        return r.fail("emitted_in_vocabulary", inp, f"{missing[:4]}")
    tk.encode(toks)


def run(r):
    rng = r.rng
    r.rules.append("complete per configuration: lattice 16 flag combinations x velocity_bins {1,2,3,4,8,19,32,127,130} x num_tracks {1,2,4} x pitch ranges {(60,62),(21,108) for a subset} x note values {default,[6,12,24]}: "
                   "ids, size, inverse, encode/decode on every member, detokenise accepts every member, vocabulary set equals an independent construction; plus tokenise output membership on seeded random pieces "
                   "(incl. time signatures whose scaled numerator leaves the range); distinct = distinct configurations / (configuration, piece)")
    flags = list(itertools.product((False, True), repeat=4))
    vb = (1, 2, 3, 4, 8, 19, 32, 127, 130) if r.tier != "quick" else (1, 2, 4, 8, 19, 130)
    for f in flags:
        for b in vb:
            for nt in ((1, 2, 4) if r.tier != "quick" else (1, 3)):
                for pr in ((60, 62),) + (((21, 108),) if (b <= 2 and nt == 1) else ()):
                    for nv in (None, [6, 12, 24]):
                        cfg = {"num_tracks": nt, "flag_running_values": f[0], "flag_fuse_track": f[1], "flag_fuse_value": f[2], "flag_fuse_velocity": f[3], "velocity_bins": b, "pitch_range": pr, "note_values": nv}
                        r.case("vocabulary", cfg); check_vocab(r, cfg)
    for k in range(200 if r.tier == "quick" else 4000):
        cfg = gen_config(rng)
        tk = mk_tok(cfg)
        piece = gen_piece(rng, cfg, tk)
        if k % 3 == 0:     # unusual signatures: scaled numerator outside / at the edge of the range, numerator inside
            n, d = rng.choice(((9, 4), (5, 2), (12, 4), (17, 8), (16, 8), (1, 8), (2, 8), (7, 4), (1, 4)))
            piece["sigs"] = [(n, d)] * len(piece["bars"]); piece["bars"] = [PPQN * 4 * n // d] * len(piece["bars"])
            tot = sum(piece["bars"])
            piece["tracks"] = [[n_ for n_ in tr if n_[2] + n_[3] <= tot] for tr in piece["tracks"]]
        r.case("emitted", [cfg, piece]); check_emitted(r, cfg, piece)


def replay(r, chk, inp):
    if "piece" in inp: check_emitted(r, inp["cfg"], inp["piece"])
    else: check_vocab(r, inp["cfg"])
