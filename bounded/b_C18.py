"""C18 bounded: pad / cutoff / integer scale / set_channel through the Sequence wrapper, independent timeline oracle."""
from common import *


def ev_only(tl):
    return [(t,) + desc(m) for t, m in tl[0]]


@guarded
def check_pad(r, items, n, via_abs):
    inp = {"items": items, "n": n, "via_abs": via_abs}
    s = rseq(items)
    if via_abs:
        s.abs; s.invalidate_rel()
    before = timeline_rel(rseq(items).rel._messages)
    s.pad(n)
    after = timeline_rel(s.rel._messages)
    if canon(after)[0] != canon(before)[0]:
        return r.fail("pad", inp, "events changed")
    if after[1] != max(before[1], n):
        return r.fail("pad", inp, f"duration {after[1]} != max({before[1]}, {n})")
    a2 = timeline_abs(s.abs._messages)
    if a2[1] != after[1] or canon(a2)[0] != canon(after)[0]:
        return r.fail("pad", inp, "absolute view disagrees after pad")


@guarded
def check_scale(r, items, k, cached="none"):
    inp = {"items": items, "k": k, "cached": cached}
    s = rseq(items)
    before = timeline_rel(s.rel._messages)
    if cached == "abs_read":
        s.get_sequence_duration()              # the absolute view is materialised and stays fresh
    elif cached == "abs_only":
        s.abs; s.invalidate_rel()
    s.scale(k, quantise_afterwards=False)
    a_after = timeline_abs(s.copy().abs._messages)
    if canon(a_after)[0] != sorted((t * k,) + tuple(str(x) for x in desc(m)) for t, m in before[0]) or a_after[1] != before[1] * k:
        return r.fail("scale", inp, f"absolute view after scaling by {k}: duration {a_after[1]} (expected {before[1] * k})")
    after = timeline_rel(s.rel._messages)
    want = [(t * k,) + desc(m) for t, m in before[0]]
    if sorted(map(str, ev_only(after))) != sorted(map(str, want)) or after[1] != before[1] * k:
        return r.fail("scale", inp, f"after {ev_only(after)[:4]} dur {after[1]}; expected {want[:4]} dur {before[1] * k}")
    if types_int(s.rel._messages):
        return r.fail("scale", inp, "non-integer times")


@guarded
def check_channel(r, items, c):
    inp = {"items": items, "c": c}
    s = rseq(items)
    before = timeline_rel(s.rel._messages)
    s.set_channel(c)
    after = timeline_rel(s.rel._messages)
    if any(m.channel != c for m in s.rel._messages):
        return r.fail("set_channel", inp, "some message keeps its channel")
    strip = lambda tl: [(t,) + desc(m)[:1] + desc(m)[2:] for t, m in tl[0]]
    if strip(after) != strip(before) or after[1] != before[1]:
        return r.fail("set_channel", inp, "something other than the channel changed")
    if any(m.channel != c for m in s.abs._messages):
        return r.fail("set_channel", inp, "absolute view keeps an old channel")


@guarded
def check_cutoff(r, notes, extras, m, red):
    inp = {"notes": notes, "extras": extras, "m": m, "r": red}
    items = notes_to_rel([tuple(n) for n in notes], [tuple(e) for e in extras])
    s = rseq(items)
    s.cutoff(m, red)
    got = notes_fifo(timeline_abs(s.abs._messages))
    want = sorted(((c, p, on, (red if d > m else d), v) for c, p, on, d, v in notes), key=lambda x: tuple(-1 if y is None else y for y in x))
    if got != want:
        return r.fail("cutoff", inp, f"notes {got} expected {want}")
    oth = sorted((t,) + desc(mm) for t, mm in timeline_abs(s.abs._messages)[0] if mm.message_type not in (MT.NOTE_ON, MT.NOTE_OFF))
    oth0 = sorted((t,) + desc(mm) for t, mm in timeline_rel(rel_msgs(items))[0] if mm.message_type not in (MT.NOTE_ON, MT.NOTE_OFF))
    if oth != oth0:
        return r.fail("cutoff", inp, "non-note events changed")


def run(r):
    rng = r.rng
    n = 300 if r.tier == "quick" else 5000
    r.rules.append(f"{n} seeded random well-formed sequences (1-6 notes, 2 channels, signatures, trailing rests) x pad n below/at/above the duration x k in 1..8 x channels x cutoff (m, r<=m); distinct = distinct (input, argument)")
    for _ in range(n):
        notes = gen_notes(rng, rng.randrange(1, 7), channels=(0, 1), pitches=(60, 62, 64, 65), max_on=40)
        extras = [(rng.choice((0, 6, 24)), ('ts', rng.choice((3, 4, 6)), rng.choice((4, 8))))] if rng.random() < 0.4 else []
        if rng.random() < 0.3:
            extras.append((rng.choice((0, 12)), ('ks', rng.choice(KEYS).name)))
        tail = rng.choice((0, 0, 5, 24))
        items = notes_to_rel(notes, extras, tail)
        dur = timeline_rel(rel_msgs(items))[1]
        for nn in {0, max(dur - 1, 0), dur, dur + 1, dur + rng.randrange(1, 50)}:
            r.case("pad", [items, nn]); check_pad(r, items, nn, rng.random() < 0.5)
        k = rng.randrange(1, 9)
        cached = rng.choice(("none", "abs_read", "abs_only"))
        r.case("scale", [items, k, cached]); check_scale(r, items, k, cached)
        c = rng.choice((0, 1, 5, 15))
        r.case("set_channel", [items, c]); check_channel(r, items, c)
        m = rng.choice((1, 2, 3, 6, 12, 24))
        red = rng.randrange(1, m + 1)
        r.case("cutoff", [notes, m, red]); check_cutoff(r, [list(x) for x in notes], [list(e) for e in extras], m, red)


def replay(r, chk, inp):
    if chk == "pad": check_pad(r, inp["items"], inp["n"], inp["via_abs"])
    elif chk == "scale": check_scale(r, inp["items"], inp["k"], inp.get("cached", "none"))
    elif chk == "set_channel": check_channel(r, inp["items"], inp["c"])
    else: check_cutoff(r, inp["notes"], inp["extras"], inp["m"], inp["r"])
