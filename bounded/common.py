"""Bounded stand-ins (B): small-scope enumeration / seeded random exploration of the REAL code with independent
oracles.  Runs under /venv/bin/python.  Results are labelled bounded and never counted as proved."""
import os, sys, json, random, itertools, logging, hashlib
REPO = os.environ.get("REPO", "/repo")
sys.path.insert(0, REPO)
logging.disable(logging.CRITICAL)
from scoda.elements.message import Message
from scoda.enumerations.message_type import MessageType as MT
from scoda.sequences.sequence import Sequence
from scoda.sequences.absolute_sequence import AbsoluteSequence
from scoda.sequences.relative_sequence import RelativeSequence
from scoda.misc.music_theory import Key, Note, CircleOfFifths, MusicMapping

KEYS = list(Key)


# ----------------------------------------------------------------------------- compact, JSON-able event descriptions
def mk(item):
    """('on',p,c,v) ('off',p,c) ('ts',n,d) ('ks',keyname) ('cc',ctl,val) ('pc',prog) ('int',) or int/('w',t) = wait; optional trailing time via dict"""
    if isinstance(item, int):
        return Message(message_type=MT.WAIT, time=item)
    k = item[0]
    if k == 'w':
        return Message(message_type=MT.WAIT, time=item[1], channel=(item[2] if len(item) > 2 else None))
    if k == 'on':
        return Message(message_type=MT.NOTE_ON, note=item[1], channel=(item[2] if len(item) > 2 else 0), velocity=(item[3] if len(item) > 3 else 64))
    if k == 'off':
        return Message(message_type=MT.NOTE_OFF, note=item[1], channel=(item[2] if len(item) > 2 else 0))
    if k == 'ts':
        return Message(message_type=MT.TIME_SIGNATURE, numerator=item[1], denominator=item[2])
    if k == 'ks':
        return Message(message_type=MT.KEY_SIGNATURE, key=Key[item[1]])
    if k == 'cc':
        return Message(message_type=MT.CONTROL_CHANGE, control=item[1], velocity=item[2])
    if k == 'pc':
        return Message(message_type=MT.PROGRAM_CHANGE, program=item[1])
    if k == 'int':
        return Message(message_type=MT.INTERNAL)
    raise ValueError(item)


def rel_msgs(items):
    return [mk(tuple(i) if isinstance(i, list) else i) for i in items]


def abs_msgs(items):
    """items: (time, ev) pairs"""
    out = []
    for t, ev in items:
        m = mk(tuple(ev) if isinstance(ev, list) else ev)
        m.time = t
        out.append(m)
    return out


def rseq(items):
    return Sequence(relative_sequence=RelativeSequence(rel_msgs(items)))


def aseq(items):
    s = Sequence()
    for m in abs_msgs(items):
        s.add_absolute_message(m)
    return s


# ----------------------------------------------------------------------------- independent oracles over raw messages
def desc(m):
    return (m.message_type.value, m.channel, m.note, m.velocity, m.numerator, m.denominator, m.key.name if m.key is not None else None, m.control, m.program)


def timeline_rel(msgs):
    """[(tick, message)] of non-wait messages and the total duration"""
    t, out = 0, []
    for m in msgs:
        if m.message_type == MT.WAIT:
            t += m.time
        else:
            out.append((t, m))
    return out, t


def timeline_abs(msgs):
    out = [(m.time, m) for m in msgs if m.message_type != MT.INTERNAL]
    dur = max([m.time for m in msgs], default=0)
    return out, dur


def canon(timeline):
    """order-insensitive within a tick"""
    tl, dur = timeline
    return sorted((t,) + tuple(str(x) for x in desc(m)) for t, m in tl), dur


def roll(timeline):
    """set of sounding (channel, pitch, tick): depth counting per (channel, pitch), floored at 0"""
    tl, dur = timeline
    depth, since, out = {}, {}, set()
    for t, m in tl:
        k = (m.channel, m.note)
        if m.message_type == MT.NOTE_ON:
            if depth.get(k, 0) == 0:
                since[k] = t
            depth[k] = depth.get(k, 0) + 1
        elif m.message_type == MT.NOTE_OFF:
            if depth.get(k, 0) > 0:
                depth[k] -= 1
                if depth[k] == 0:
                    out |= {(k[0], k[1], x) for x in range(since[k], t)}
    return out


def notes_fifo(timeline, with_velocity=True):
    """(channel, pitch, onset, duration[, velocity]) by FIFO pairing per (channel, pitch); unclosed / orphan ignored"""
    tl, dur = timeline
    op, out = {}, []
    for t, m in tl:
        k = (m.channel, m.note)
        if m.message_type == MT.NOTE_ON:
            op.setdefault(k, []).append((t, m.velocity))
        elif m.message_type == MT.NOTE_OFF and op.get(k):
            a, v = op[k].pop(0)
            out.append((k[0], k[1], a, t - a, v) if with_velocity else (k[0], k[1], a, t - a))
    return sorted(out, key=lambda x: tuple(-1 if y is None else y for y in x))


def alternation_errors(timeline):
    """per (channel, pitch): on/off must strictly alternate, start with on, end with off"""
    tl, _ = timeline
    state, errs = {}, []
    for t, m in tl:
        k = (m.channel, m.note)
        if m.message_type == MT.NOTE_ON:
            if state.get(k):
                errs.append(f"re-trigger {k}@{t}")
            state[k] = True
        elif m.message_type == MT.NOTE_OFF:
            if not state.get(k):
                errs.append(f"orphan off {k}@{t}")
            state[k] = False
    errs += [f"unclosed {k}" for k, v in state.items() if v]
    return errs


def well_paired(timeline):
    """every note-on has a later-or-equal note-off (depth returns to 0, never negative)"""
    tl, _ = timeline
    depth = {}
    for t, m in tl:
        k = (m.channel, m.note)
        if m.message_type == MT.NOTE_ON:
            depth[k] = depth.get(k, 0) + 1
        elif m.message_type == MT.NOTE_OFF:
            if depth.get(k, 0) == 0:
                return False
            depth[k] -= 1
    return all(v == 0 for v in depth.values())


def types_int(msgs):
    return [repr(m.time) for m in msgs if m.time is not None and type(m.time) is not int]


# ----------------------------------------------------------------------------- result accumulation
class Run:
    def __init__(self, prop, tier, seed):
        self.prop, self.tier, self.seed = prop, tier, seed
        self.rng = random.Random(seed * 7919 + 17)
        self.evaluations = 0
        self.distinct = set()
        self.violations = []
        self.samples = []
        self.checks = {}
        self.rules = []
        self.errors = []

    def case(self, check, inp, nontrivial=True):
        self.evaluations += 1
        self.checks[check] = self.checks.get(check, 0) + 1
        if nontrivial:
            self.distinct.add(hashlib.md5((check + json.dumps(inp, sort_keys=True, default=str)).encode()).hexdigest())
        if len(self.samples) < 4 and self.checks[check] in (3, 50):
            self.samples.append({"check": check, "input": inp})

    def fail(self, check, inp, observed, klass=""):
        k = klass or check
        if sum(1 for v in self.violations if v["klass"] == k) < 4 and len(self.violations) < 40:
            self.violations.append({"check": check, "klass": k, "input": inp, "observed": str(observed)[:400]})

    def out(self):
        return {"property": self.prop, "tier": self.tier, "seed": self.seed, "evaluations": self.evaluations, "distinct_nontrivial": len(self.distinct),
                "rule": " | ".join(self.rules), "checks": [{"name": k, "cases": v} for k, v in self.checks.items()], "violations": self.violations,
                "samples": self.samples, **({"error": "; ".join(self.errors)} if self.errors else {})}


# ----------------------------------------------------------------------------- generators
def notes_to_rel(notes, extras=(), tail=0, canonical=True):
    """notes: (c, p, on, dur, vel); extras: (tick, item). -> relative item list (JSON-able)"""
    ev = []
    for c, p, on, dur, vel in notes:
        ev.append((on, 1, ('on', p, c, vel)))
        ev.append((on + dur, 0, ('off', p, c)))
    for t, it in extras:
        ev.append((t, -1, tuple(it)))
    ev.sort(key=lambda x: (x[0], x[1]))
    out, cur = [], 0
    for t, _, it in ev:
        if t > cur:
            out.append(t - cur)
            cur = t
        out.append(list(it))
    if tail:
        out.append(tail)
    return out


def gen_notes(rng, n, channels=(0,), pitches=(60, 62, 64), grid=1, max_on=48, durs=(1, 2, 3, 6, 12, 24), overlap_same=False):
    notes, busy = [], {}
    for _ in range(n):
        c, p = rng.choice(channels), rng.choice(pitches)
        on = rng.randrange(0, max_on + 1) * grid
        dur = rng.choice(durs) * grid
        if not overlap_same:
            if any(not (on + dur <= a or b <= on) for a, b in busy.get((c, p), [])):
                continue
            busy.setdefault((c, p), []).append((on, on + dur))
        notes.append((c, p, on, dur, rng.choice((1, 40, 64, 100, 127))))
    return notes


def rel_to_json(msgs):
    out = []
    for m in msgs:
        if m.message_type == MT.WAIT:
            out.append(m.time)
        else:
            out.append([m.message_type.value] + [x for x in desc(m)[1:]])
    return out


def guarded(f):
    """an exception escaping the real code on an input inside the property's quantifier is a violation, not a checker error"""
    import functools, traceback

    @functools.wraps(f)
    def w(r, *a, **k):
        try:
            return f(r, *a, **k)
        except Exception as ex:
            tb = traceback.extract_tb(ex.__traceback__)
            inside = [fr for fr in tb if "/scoda/" in fr.filename]
            if not inside:
                raise          # a bug of the oracle itself: checker error
            r.fail("exception", {"fn": f.__name__, "args": list(a)}, f"{type(ex).__name__}: {ex} (raised at {inside[-1].filename.split('/scoda/')[-1]}:{inside[-1].lineno})", klass=f"exception:{type(ex).__name__}")
    return w
