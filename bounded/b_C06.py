"""C06 bounded: quantise_note_lengths on enumerated + seeded random well-formed sequences x note-value lists x extension on/off."""
from common import *


@guarded
def check(r, notes, extras, values, dne):
    inp = {"notes": notes, "extras": extras, "values": values, "do_not_extend": dne}
    ev = []
    for c, p, on, d, v in notes:
        ev.append((on, ('on', p, c, v))); ev.append((on + d, ('off', p, c)))
    for t, it in extras:
        ev.append((t, tuple(it)))
    s = aseq(sorted(ev, key=lambda x: (x[0], 0 if x[1][0] == 'off' else 1)))
    other0 = sorted((m.time,) + desc(m) for m in s.abs._messages if m.message_type not in (MT.NOTE_ON, MT.NOTE_OFF))
    s.quantise_note_lengths(list(values), do_not_extend=dne)
    tl = timeline_abs(s.abs._messages)
    if types_int(s.abs._messages):
        return r.fail("int_ticks", inp, types_int(s.abs._messages))
    other1 = sorted((m.time,) + desc(m) for m in s.abs._messages if m.message_type not in (MT.NOTE_ON, MT.NOTE_OFF))
    if other1 != other0:
        return r.fail("non_note_untouched", inp, f"{other1} expected {other0}")
    errs = alternation_errors(tl)
    if errs:
        return r.fail("overlap", inp, errs[:3])
    got = {(c, p, on): (d, v) for c, p, on, d, v in notes_fifo(tl)}
    src = {(c, p, on): (d, v) for c, p, on, d, v in notes}
    for k in got:
        if k not in src:
            return r.fail("onset_moved", inp, f"note {k} is not an original (channel, pitch, onset)")
    for (c, p, on), (d, v) in src.items():
        nxt = min([o for (cc, pp, o) in src if (cc, pp) == (c, p) and o > on], default=None)
        fits = [x for x in values if (nxt is None or on + x <= nxt) and (not dne or x <= d)]
        if (c, p, on) not in got:
            if fits:
                return r.fail("removed_although_fits", inp, f"note {(c, p, on, d)} removed, fitting values {fits}")
            continue
        nd, nv = got[(c, p, on)]
        if nv != v:
            return r.fail("velocity", inp, f"{(c, p, on)}: velocity {nv} != {v}")
        if nd not in values:
            return r.fail("allowed_duration", inp, f"{(c, p, on)}: duration {nd} not in {values}")
        if dne and nd > d:
            return r.fail("extended", inp, f"{(c, p, on)}: {d} -> {nd} with extension disabled")
        if not fits:
            return r.fail("kept_although_none_fits", inp, f"{(c, p, on, d)} -> {nd}")
        best = min(abs(x - d) for x in fits)
        if nd not in fits or abs(nd - d) != best:
            return r.fail("closest_fit", inp, f"{(c, p, on, d)} -> {nd}; fitting {fits}, closest distance {best}")


def run(r):
    rng = r.rng
    vals_all = [[6, 12, 24], [24, 12, 6], [48, 24, 12, 6], [3, 4], [5], [36, 24, 18, 16, 12, 9, 8, 6, 4], [6, 12]]
    r.rules.append("exhaustive small scope: 1-3 notes of one (channel, pitch) back to back / with gaps (onsets 0..30 subset, durations {1,5,6,7,11,12,13,22,24}) + a second channel with the same pitch, "
                   "x 7 note-value lists x extension on/off; plus seeded random multi-channel sequences; distinct = distinct (sequence, values, flag)")
    ons = (0, 6, 12, 24)
    for d1 in (1, 5, 6, 7, 11, 12, 13, 22, 24):
        for gap in (0, 1, 2, 6):
            for d2 in (5, 12, 22):
                notes = [[0, 60, 0, d1, 64], [0, 60, d1 + gap, d2, 100]]
                for extra_note in ([], [[1, 60, 3, 7, 40]], [[0, 60, d1 + gap + d2, 6, 1]]):
                    for values in vals_all[:4] if r.tier == "quick" else vals_all:
                        for dne in (False, True):
                            nn = notes + extra_note
                            r.case("enum", [nn, values, dne]); check(r, nn, [[3, ['cc', 1, 2]]], values, dne)
    for _ in range(1500 if r.tier == "quick" else 40000):
        notes = [list(n) for n in gen_notes(rng, rng.randrange(1, 7), channels=(0, 1), pitches=(60, 61), max_on=60, durs=(1, 2, 5, 6, 7, 11, 12, 13, 22, 24, 30))]
        extras = [[rng.randrange(0, 70), rng.choice((['cc', 1, 2], ['ks', 'D'], ['ts', 3, 4]))] for _ in range(rng.randrange(0, 3))]
        values = rng.choice(vals_all)
        dne = rng.random() < 0.5
        r.case("random", [notes, extras, values, dne]); check(r, notes, extras, values, dne)


def replay(r, chk, inp):
    check(r, inp["notes"], inp["extras"], inp["values"], inp["do_not_extend"])
