"""C07 bounded: normalise on ALL event strings up to a small length over a small alphabet (incl. ill-formed), plus seeded random longer ones."""
from common import *

ALPHA = [3, ['on', 0, 0, 64], ['off', 0, 0], ['on', 0, 1, 64], ['off', 0, 1], ['on', 60, 0, 64], ['off', 60, 0], ['on', 1, 0, 64], ['off', 1, 0],
         ['ts', 3, 4], ['ts', 4, 4], ['ks', 'C'], ['ks', 'G']]


def sigs_in_force_repeats(tl):
    ts = ks = None
    bad = []
    for t, m in tl[0]:
        if m.message_type == MT.TIME_SIGNATURE:
            if (m.numerator, m.denominator) == ts:
                bad.append(f"repeated ts@{t}")
            ts = (m.numerator, m.denominator)
        elif m.message_type == MT.KEY_SIGNATURE:
            if m.key == ks:
                bad.append(f"repeated ks@{t}")
            ks = m.key
    return bad


def sig_events(tl):
    """signature changes that do not repeat the one in force (what must survive)"""
    ts = ks = None
    out = []
    for t, m in tl[0]:
        if m.message_type == MT.TIME_SIGNATURE and (m.numerator, m.denominator) != ts:
            ts = (m.numerator, m.denominator); out.append((t, 'ts') + ts)
        elif m.message_type == MT.KEY_SIGNATURE and m.key != ks:
            ks = m.key; out.append((t, 'ks', ks.name))
    return out


@guarded
def check(r, items):
    s = rseq(items)
    before = timeline_rel(s.rel._messages)
    paired = well_paired(before)
    roll0 = roll(before)
    sig0 = sig_events(before)
    other0 = sorted((t,) + desc(m) for t, m in before[0] if m.message_type not in (MT.NOTE_ON, MT.NOTE_OFF, MT.TIME_SIGNATURE, MT.KEY_SIGNATURE))
    s.normalise()
    after = timeline_rel(s.rel._messages)
    errs = alternation_errors(after)
    if errs:
        return r.fail("alternation", items, errs[:3])
    rep = sigs_in_force_repeats(after)
    if rep:
        return r.fail("signatures", items, rep)
    if sig_events(after) != sig0:
        return r.fail("signatures", items, f"signature changes {sig_events(after)} expected {sig0}")
    if after[1] != before[1]:
        return r.fail("duration", items, f"{before[1]} -> {after[1]}")
    other1 = sorted((t,) + desc(m) for t, m in after[0] if m.message_type not in (MT.NOTE_ON, MT.NOTE_OFF, MT.TIME_SIGNATURE, MT.KEY_SIGNATURE))
    if other1 != other0:
        return r.fail("other_events", items, "a non-note, non-signature event moved or vanished")
    if paired and roll(after) != roll0:
        return r.fail("sounding_set", items, f"lost {sorted(roll0 - roll(after))[:5]} gained {sorted(roll(after) - roll0)[:5]}")
    c1 = canon(timeline_abs(s.copy().abs._messages))
    s.normalise()
    c2 = canon(timeline_abs(s.copy().abs._messages))
    if c1 != c2:
        return r.fail("idempotence", items, "second normalise changed the canonical content")
    if types_int(s.rel._messages):
        return r.fail("int_ticks", items, types_int(s.rel._messages))


def run(r):
    L = 4 if r.tier == "quick" else 5
    r.rules.append(f"exhaustive: all event strings of length <= {L} over a {len(ALPHA)}-symbol alphabet (2 channels, pitches equal to and different from channel numbers, two signatures each, rests); "
                   "all strings of length <= 8 over {rest, on, off} of one pitch and <= 6 over the same pitch on two channels (nested / overlapping / re-triggered notes); plus seeded random strings of length 6-14; distinct = distinct strings containing at least one note or signature event")
    for n in range(0, L + 1):
        for tup in itertools.product(range(len(ALPHA)), repeat=n):
            items = [ALPHA[k] for k in tup]
            r.case("enum", items, nontrivial=any(not isinstance(x, int) for x in items)); check(r, items)
    small = [3, ['on', 60, 0, 64], ['off', 60, 0]]
    for n in range(0, 9 if r.tier == "quick" else 11):
        for tup in itertools.product(range(3), repeat=n):
            items = [small[k] for k in tup]
            r.case("enum_one_pitch", items, nontrivial=len(items) > 0); check(r, items)
    two = [3, ['on', 60, 0, 64], ['off', 60, 0], ['on', 60, 1, 64], ['off', 60, 1]]
    for n in range(0, 7 if r.tier == "quick" else 8):
        for tup in itertools.product(range(5), repeat=n):
            items = [two[k] for k in tup]
            r.case("enum_two_channels", items, nontrivial=len(items) > 0); check(r, items)
    rng = r.rng
    for _ in range(600 if r.tier == "quick" else 20000):
        items = [rng.choice(ALPHA) for _ in range(rng.randrange(6, 15))]
        r.case("random", items); check(r, items)


def replay(r, chk, inp):
    check(r, inp)
