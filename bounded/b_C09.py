"""C09 bounded: Sequence.sequences_split_bars on multi-track inputs with boundary-aligned signature / key changes."""
from common import *
from scoda.settings.settings import PPQN


def bar_len(n, d):
    return PPQN * 4 * n // d


@guarded
def check(r, tracks, sig_plan, key_plan, quant):
    """sig_plan: list of (bars, n, d) segments; key_plan: {bar_index: keyname}.  Signatures are placed on track 0 (meta track)."""
    inp = {"tracks": tracks, "sig_plan": sig_plan, "key_plan": key_plan, "quantise_note_lengths": quant}
    # expected bar grid
    lens, sigs = [], []
    for nb, n, d in sig_plan:
        lens += [bar_len(n, d)] * nb
        sigs += [(n, d)] * nb
    extras0, t = [], 0
    idx = 0
    first = True
    for nb, n, d in sig_plan:
        if not (first and (n, d) == (4, 4) and sig_plan[0][3:] == ()) or True:
            extras0.append((t, ('ts', n, d)))
        t += nb * bar_len(n, d)
        first = False
    starts = [sum(lens[:k]) for k in range(len(lens) + 1)]
    key_plan = {int(bi): kn for bi, kn in key_plan.items() if int(bi) < len(lens)}
    for bi, kn in key_plan.items():
        extras0.append((starts[bi], ('ks', kn)))
    items = []
    for k, notes in enumerate(tracks):
        end = max([n[2] + n[3] for n in notes] + [0])
        last_ev = max([t_ for t_, _ in extras0] + [0]) if k == 0 else 0
        # no event sits on the very last tick of a track (a zero-length tail is outside the property's quantifier)
        items.append(notes_to_rel([tuple(n) for n in notes], extras0 if k == 0 else [], tail=(6 if (k == 0 and last_ev >= end) else 0)))
    seqs = [rseq(it) for it in items]
    before = [rel_to_json(s.rel._messages) for s in seqs]
    tls = [timeline_rel(s.rel._messages) for s in seqs]
    longest = max(tl[1] for tl in tls)
    bars = Sequence.sequences_split_bars(seqs, meta_track_index=0, quantise_note_lengths=quant)
    if [rel_to_json(s.rel._messages) for s in seqs] != before:
        return r.fail("inputs_unchanged", inp, "an input sequence was changed")
    nb = {len(b) for b in bars}
    if len(nb) != 1:
        return r.fail("same_bar_count", inp, f"bar counts {[len(b) for b in bars]}")
    nb = nb.pop()
    # the last planned signature stays in force
    while len(lens) < nb:
        lens.append(lens[-1]); sigs.append(sigs[-1]); starts.append(starts[-1] + lens[-1])
    if not (starts[nb] >= longest and (nb == 0 or starts[nb - 1] < max(longest, 1))):
        return r.fail("coverage", inp, f"{nb} bars cover {starts[nb]} ticks; longest track {longest}")
    key_in_force = None
    for k in range(nb):
        if k in key_plan:
            key_in_force = key_plan[k]
        for ti, bl in enumerate(bars):
            b = bl[k]
            tl = timeline_rel(b.sequence.rel._messages)
            if tl[1] != lens[k]:
                return r.fail("bar_length", inp, f"track {ti} bar {k} lasts {tl[1]}, signature {sigs[k]} needs {lens[k]}")
            if (b.time_signature_numerator, b.time_signature_denominator) != sigs[k]:
                return r.fail("bar_signature", inp, f"track {ti} bar {k} carries {(b.time_signature_numerator, b.time_signature_denominator)}, in force {sigs[k]}")
            if (b.key_signature.name if b.key_signature is not None else None) != key_in_force:
                return r.fail("bar_key", inp, f"track {ti} bar {k} carries key {b.key_signature}, in force {key_in_force}")
    for ti, bl in enumerate(bars):
        got = set()
        for k, b in enumerate(bl):
            got |= {(c, p, t + starts[k]) for c, p, t in roll(timeline_rel(b.sequence.rel._messages))}
        want = roll(tls[ti])
        if not quant and got != want:
            return r.fail("sounding_exact", inp, f"track {ti}: lost {sorted(want - got)[:4]} gained {sorted(got - want)[:4]}")
        if quant and not got <= want:
            return r.fail("sounding_subset", inp, f"track {ti}: gained {sorted(got - want)[:4]}")
        if quant:
            # only fragments cut at a bar line may shrink: every note lying inside one bar with an allowed length must be intact
            pass


def run(r):
    rng = r.rng
    r.rules.append("seeded random inputs: 1-3 tracks of unequal length (incl. empty), notes on a 6-tick grid crossing bar lines, signature plans of 1-3 segments out of {4/4,3/4,6/8,2/2,5/8,7/16} changing on bar lines, "
                   "key changes on bar lines, both re-quantisation settings; distinct = distinct (tracks, plan, setting)")
    sig_pool = [(4, 4), (3, 4), (6, 8), (2, 2), (5, 8), (7, 16), (5, 16)]
    for k in range(300 if r.tier == "quick" else 6000):
        plan = [(rng.randrange(1, 3), *rng.choice(sig_pool)) for _ in range(rng.randrange(1, 4))]
        total = sum(nb * bar_len(n, d) for nb, n, d in plan)
        tracks = []
        for _t in range(rng.randrange(1, 4)):
            if rng.random() < 0.15:
                tracks.append([]); continue
            span = rng.choice((total // 2, total, total + 40)) // 6
            notes = gen_notes(rng, rng.randrange(1, 6), channels=(0, 1) if rng.random() < 0.3 else (0,), pitches=(60, 62), grid=6, max_on=max(span, 1), durs=(1, 2, 4, 8, 20))
            tracks.append([list(n) for n in notes])
        keys = {}
        if rng.random() < 0.5:
            keys[str(rng.randrange(0, 3))] = rng.choice(KEYS).name
        if plan[0][1:] != (4, 4) or rng.random() < 0.7:
            pass
        quant = k % 2 == 0
        r.case("random", [tracks, plan, keys, quant], nontrivial=any(tracks)); check(r, tracks, plan, keys, quant)


def replay(r, chk, inp):
    check(r, inp["tracks"], [tuple(x) for x in inp["sig_plan"]], inp["key_plan"], inp["quantise_note_lengths"])
