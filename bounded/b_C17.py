"""C17 bounded: Sequence.equals / == on generated pairs: identical, copied, re-ordered, re-represented, and all single-attribute perturbations x flags."""
from common import *

FLAGS = [dict(zip(("ignore_channel", "ignore_time_signature", "ignore_key_signature", "ignore_velocity"), bits)) for bits in itertools.product((False, True), repeat=4)]


def build(notes, extras, tail, mode):
    if mode == "rel":
        return rseq(notes_to_rel(notes, extras, tail))
    ev = []
    for c, p, on, d, v in notes:
        ev.append((on, ('on', p, c, v))); ev.append((on + d, ('off', p, c)))
    ev += [(t, tuple(it)) for t, it in extras]
    end = max([t for t, _ in ev] + [0]) + tail
    ev.append((end, ('int',)))
    if mode == "abs_shuffled":
        random.Random(len(ev) * 7 + len(notes)).shuffle(ev)
    s = Sequence()
    for m in abs_msgs(ev):
        s.add_absolute_message(m)
    return s


@guarded
def check(r, notes, extras, tail):
    inp = {"notes": notes, "extras": extras, "tail": tail}
    base = build(notes, extras, tail, "rel")
    for mode in ("rel", "abs", "abs_shuffled"):
        other = build(notes, extras, tail, mode)
        if not base.equals(other) or not other.equals(base) or not (base == other):
            return r.fail("same_events_equal", inp, f"built through {mode}: not equal")
    if not base.equals(base) or not base.equals(base.copy()) or not base.copy().equals(base):
        return r.fail("reflexive_copy", inp, "sequence differs from itself / its copy")
    # single-attribute perturbations
    perts = []
    for i, n in enumerate(notes):
        c, p, on, d, v = n
        same_cp = [(o, o + dd) for j, (cc, pp, o, dd, _) in enumerate(notes) if j != i and pp == p]
        free = lambda a, b: all(b <= x or y <= a for x, y in same_cp)
        if free(on, on + d):
            perts.append(("pitch", [x if j != i else (c, p + 1, on, d, v) for j, x in enumerate(notes)], extras, None) if all(pp != p + 1 for _, pp, _, _, _ in notes) else None)
            if free(on + 1, on + d + 1):
                perts.append(("onset", [x if j != i else (c, p, on + 1, d, v) for j, x in enumerate(notes)], extras, None))
            if free(on, on + d + 1):
                perts.append(("duration", [x if j != i else (c, p, on, d + 1, v) for j, x in enumerate(notes)], extras, None))
            perts.append(("velocity", [x if j != i else (c, p, on, d, v + 1) for j, x in enumerate(notes)], extras, "ignore_velocity"))
    if notes and len({c for c, _, _, _, _ in notes}) == 1:
        perts.append(("channel", [(c + 3, p, on, d, v) for c, p, on, d, v in notes], [(t, it) for t, it in extras], "ignore_channel"))
    for k, (t, it) in enumerate(extras):
        if it[0] == 'ts':
            perts.append(("ts_value", notes, [e if j != k else (t, ('ts', it[1] + 1, it[2])) for j, e in enumerate(extras)], "ignore_time_signature"))
            perts.append(("ts_tick", notes, [e if j != k else (t + 1, it) for j, e in enumerate(extras)], "ignore_time_signature"))
        if it[0] == 'ks':
            perts.append(("ks_value", notes, [e if j != k else (t, ('ks', 'F_S' if it[1] != 'F_S' else 'C')) for j, e in enumerate(extras)], "ignore_key_signature"))
            perts.append(("ks_tick", notes, [e if j != k else (t + 1, it) for j, e in enumerate(extras)], "ignore_key_signature"))
    for pt in perts:
        if pt is None:
            continue
        what, n2, e2, relaxing = pt
        if what == "channel":
            other = build(n2, [], tail, "rel") if not extras else None
            if other is None:
                continue
            b2 = build(notes, [], tail, "rel")
        else:
            other = build(n2, e2, tail, "rel")
            b2 = base
        for fl in FLAGS:
            eq = b2.equals(other, **fl)
            eq_rev = other.equals(b2, **fl)
            if eq != eq_rev:
                return r.fail("symmetric", {**inp, "perturbation": what, "flags": fl}, f"a.equals(b)={eq}, b.equals(a)={eq_rev}")
            want = relaxing is not None and fl[relaxing]
            if eq != want:
                return r.fail("distinguishes", {**inp, "perturbation": what, "flags": fl}, f"sequences differing only in {what}: equals={eq}, expected {want}")


def run(r):
    rng = r.rng
    r.rules.append("seeded random sequences (1-4 notes on one or two channels, 0-2 signatures, optional trailing rest); for each: rebuilt through both representations and a shuffled insertion order, copied, "
                   "and every single-attribute perturbation (pitch, onset, duration, velocity, channel, signature value, signature tick) x 16 flag combinations; distinct = distinct base sequences")
    for _ in range(250 if r.tier == "quick" else 5000):
        notes = gen_notes(rng, rng.randrange(1, 5), channels=rng.choice(((0,), (0, 1))), pitches=(60, 64, 67), max_on=30, durs=(3, 6, 12))
        extras = []
        if rng.random() < 0.6:
            extras.append((rng.choice((0, 12)), ('ts', rng.choice((3, 4)), 4)))
        if rng.random() < 0.5:
            extras.append((rng.choice((0, 6, 24)), ('ks', rng.choice(KEYS).name)))
        tail = rng.choice((0, 5))
        r.case("pairs", [notes, extras, tail]); check(r, notes, extras, tail)


def replay(r, chk, inp):
    check(r, [tuple(n) for n in inp["notes"]], [(t, tuple(it)) for t, it in inp["extras"]], inp["tail"])
