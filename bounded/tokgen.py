"""Generators and oracles shared by the tokeniser properties (C01, C02, C03, C19)."""
from common import *
from scoda.tokenisation.notelike_tokenisation import MultiTrackLargeVocabularyNotelikeTokeniser as Tok
from scoda.exceptions.tokenisation_exception import TokenisationException
from scoda.settings.settings import PPQN

SIGS = [(4, 4), (3, 4), (6, 8), (2, 4), (5, 8), (2, 2), (12, 8), (8, 8)]
NOTE_VALUE_SETS = [None, [6, 12, 24, 48], [2, 4, 8, 96], [24]]


def bar_len(n, d):
    return PPQN * 4 * n // d


def gen_config(rng):
    return {"num_tracks": rng.randrange(1, 4), "flag_running_values": rng.random() < 0.5, "flag_fuse_track": rng.random() < 0.5, "flag_fuse_value": rng.random() < 0.5,
            "flag_fuse_velocity": rng.random() < 0.5, "velocity_bins": rng.choice((1, 1, 2, 4, 8)), "pitch_range": rng.choice(((21, 108), (48, 72))), "note_values": rng.choice(NOTE_VALUE_SETS)}


def mk_tok(cfg):
    kw = dict(cfg)
    kw["pitch_range"] = tuple(kw["pitch_range"])
    if kw.get("note_values") is not None:
        kw["note_values"] = list(kw["note_values"])
    return Tok(**kw)


def gen_piece(rng, cfg, tk, grid=2, max_bars=4, whole_bar_notes=True):
    """valid piece under V_strict: even onsets, durations from the note values, pitches in range, signatures on bar lines"""
    plan = [(rng.randrange(1, 3), *rng.choice(SIGS)) for _ in range(rng.randrange(1, 3))]
    lens, sigs = [], []
    for nb, n, d in plan:
        lens += [bar_len(n, d)] * nb; sigs += [(n, d)] * nb
    lens, sigs = lens[:max_bars], sigs[:max_bars]
    total = sum(lens)
    values = sorted(tk.note_values)
    tracks = []
    for t in range(cfg["num_tracks"]):
        notes, busy = [], {}
        for _ in range(rng.randrange(0, 7)):
            p = rng.randrange(cfg["pitch_range"][0], cfg["pitch_range"][1] + 1) if rng.random() < 0.3 else rng.choice((cfg["pitch_range"][0], 60, 62, cfg["pitch_range"][1]))
            on = rng.randrange(0, max(total // grid, 1)) * grid
            d = rng.choice(values)
            if on + d > total or any(not (on + d <= a or b <= on) for a, b in busy.get(p, [])):
                continue
            busy.setdefault(p, []).append((on, on + d))
            notes.append([t, p, on, d, rng.randrange(1, 128)])
        tracks.append(notes)
    # the piece ends with the bar that holds its last note: no signature event beyond the music
    end_music = max([n[2] + n[3] for tr in tracks for n in tr] + [1])
    keep, acc = 0, 0
    for L in lens:
        keep += 1; acc += L
        if acc >= end_music:
            break
    lens, sigs = lens[:keep], sigs[:keep]
    return {"bars": lens, "sigs": sigs, "tracks": tracks, "build": rng.choice(("rel", "abs")), "read_rel": rng.random() < 0.5}


def piece_sequences(piece, explicit_first_sig=True):
    extras, t, prev = [], 0, None
    for L, sg in zip(piece["bars"], piece["sigs"]):
        if sg != prev:
            extras.append((t, ('ts', sg[0], sg[1])))
        prev = sg
        t += L
    seqs = []
    for k, notes in enumerate(piece["tracks"]):
        items = notes_to_rel([tuple(n) for n in notes], extras if k == 0 else [])
        if piece.get("build") == "abs":
            # built through the absolute view, on a channel that differs from the track index, absolute view fresh
            s = Sequence()
            for t_, m in timeline_rel(rel_msgs(items))[0]:
                m.time = t_
                m.channel = (k + 1) % 4
                s.add_absolute_message(m)
            if piece.get("read_rel"):
                s.rel
            seqs.append(s)
        else:
            seqs.append(rseq(items))
    return seqs


def bin_value(tk, v):
    bins = list(tk.velocity_bins)
    for b in bins:
        if v <= b:
            return b
    return bins[-1]


def expected(piece, tk):
    notes = [sorted((p, on, d, bin_value(tk, v)) for _, p, on, d, v in tr) for tr in piece["tracks"]]
    end_music = max([on + d for tr in piece["tracks"] for _, _, on, d, _ in tr] + [0])
    starts, t = [], 0
    for L in piece["bars"]:
        starts.append(t); t += L
    return notes, starts + [t], end_music


def decoded_notes(seqs):
    return [sorted((p, on, d, v) for c, p, on, d, v in notes_fifo(timeline_abs(s.abs._messages))) for s in seqs]


def bar_marks(seq):
    return sorted({m.time for m in seq.abs._messages if m.message_type == MT.INTERNAL})
