"""C01 bounded: tokenise -> encode -> decode -> detokenise on generated valid pieces x configurations (whole piece in one call)."""
from tokgen import *


def classify(piece, tk, ex=None):
    """known witness classes"""
    if ex is not None and "Invalid remaining rest value" in str(ex):
        return "D15-greedy-rest-remainder"
    return None


def d18_class(piece):
    """known class D18: nothing advances the bar clock after the last onset although the music is not over: the last onset sits
    exactly on a bar line, or a note tail reaches the end of the last onset's bar or beyond"""
    starts = [sum(piece["bars"][:k]) for k in range(len(piece["bars"]) + 1)]
    ons = sorted({on for tr in piece["tracks"] for _, _, on, _, _ in tr})
    if not ons:
        return False
    last_on = ons[-1]
    end_music = max(on + d for tr in piece["tracks"] for _, _, on, d, _ in tr)
    bar_end = min(x for x in starts if x > last_on)
    return last_on in starts or end_music > bar_end


@guarded
def check(r, cfg, piece, strict=True):
    inp = {"cfg": cfg, "piece": piece, "strict": strict}
    tk = mk_tok(cfg)
    seqs = piece_sequences(piece)
    try:
        toks = tk.tokenise(seqs)
    except TokenisationException as ex:
        k = classify(piece, tk, ex)
        return r.fail("tokenise_succeeds", inp, f"TokenisationException: {ex}", klass=k or "tokenise_succeeds")
    missing = [t for t in toks if t not in tk.dictionary]
    if missing:
        return r.fail("tokens_in_vocabulary", inp, f"{missing[:4]}")
    back = tk.decode(tk.encode(toks))
    if back != toks:
        return r.fail("encode_decode", inp, "decode(encode(tokens)) != tokens")
    out = tk.detokenise(back)
    want_notes, grid, end_music = expected(piece, tk)
    got = decoded_notes(out)
    if got != want_notes:
        bad = [(k, g[:4], w[:4]) for k, (g, w) in enumerate(zip(got, want_notes)) if g != w][:1]
        return r.fail("notes", inp, f"track/got/expected: {bad}")
    if any(types_int(s.abs._messages) for s in out):
        return r.fail("int_ticks", inp, "non-integer times")
    # bar grid: every bar line up to the end of the last bar that contains music is marked on every track; duration = that bar's end
    need = [b for b in grid[1:] if b - 0 <= max(end_music, 0) or b == min([x for x in grid[1:] if x >= end_music] or [grid[-1]])]
    last = min([x for x in grid[1:] if x >= end_music] or [grid[-1]]) if end_music > 0 else 0
    need = [b for b in grid[1:] if b <= last]
    d18 = d18_class(piece)
    for k, s in enumerate(out):
        marks = bar_marks(s)
        dur = max([m.time for m in s.abs._messages] + [0])
        if not set(need) <= set(marks) and end_music > 0:
            return r.fail("bar_grid", inp, f"track {k}: bar marks {marks}, expected at least {need}", klass="D18-last-bar-not-closed" if d18 else "bar_grid")
        if any(m not in grid for m in marks):
            return r.fail("bar_grid", inp, f"track {k}: bar mark outside the grid {marks} vs {grid}")
    total = max([m.time for s in out for m in s.abs._messages] + [0])
    if end_music > 0 and total != last:
        return r.fail("total_duration", inp, f"duration {total}, end of last bar {last}", klass="D18-last-bar-not-closed" if d18 else "total_duration")


def run(r):
    rng = r.rng
    r.rules.append("seeded random configurations (16 flag combinations, velocity_bins in {1,2,4,8}, 1-3 tracks, 2 pitch ranges, 4 note-value sets) x generated valid pieces (V_strict: even onsets; 1-4 bars; signature changes on bar lines; "
                   "simultaneous notes across tracks; rests crossing bar lines), whole piece in one call; plus a probe of the wide grid reading (onsets on multiples of 3); distinct = distinct (configuration, piece)")
    for k in range(300 if r.tier == "quick" else 6000):
        cfg = gen_config(rng)
        tk = mk_tok(cfg)
        piece = gen_piece(rng, cfg, tk)
        r.case("roundtrip", [cfg, piece], nontrivial=any(piece["tracks"])); check(r, cfg, piece)
    # wide-grid probe (property reading "on the tokeniser's step grid" = multiple of some step size): known finding D15
    for k in range(40):
        cfg = {"num_tracks": 1, "flag_running_values": True, "flag_fuse_track": True, "flag_fuse_value": True, "flag_fuse_velocity": True, "velocity_bins": 1, "pitch_range": (21, 108), "note_values": None}
        piece = {"bars": [96], "sigs": [(4, 4)], "tracks": [[[0, 60, 0, 9, 64], [0, 62, 9 + 3 * (k % 3), 9, 64]]]}
        r.case("wide_grid_probe", [cfg, piece]); check(r, cfg, piece, strict=False)


def replay(r, chk, inp):
    check(r, inp["cfg"], inp["piece"], inp.get("strict", True))
