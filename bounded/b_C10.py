"""C10 bounded: Bar construction over (sequence, numerator, denominator, key) combinations; exact length in rationals."""
from common import *
from fractions import Fraction
from scoda.elements.bar import Bar
from scoda.exceptions.bar_exception import BarException
from scoda.settings.settings import PPQN


@guarded
def check(r, items, num, den, keyname):
    inp = {"items": items, "num": num, "den": den, "key": keyname}
    src = timeline_rel(rel_msgs(items))
    # the signature events of the *normalised* input decide acceptance: compute them independently
    ts_events = []
    cur = None
    for t, m in src[0]:
        if m.message_type == MT.TIME_SIGNATURE and (m.numerator, m.denominator) != cur:
            cur = (m.numerator, m.denominator); ts_events.append(cur)
    cap = Fraction(num * 4 * PPQN, den)
    try:
        b = Bar(rseq(items), num, den, Key[keyname] if keyname else None)
    except BarException:
        if src[1] <= cap and cap.denominator == 1 and len(ts_events) <= 1 and all(x == (num, den) for x in ts_events):
            return r.fail("spurious_rejection", inp, "a sequence that fits with a consistent signature was rejected")
        return
    except Exception as ex:
        return r.fail("exception_type", inp, f"{type(ex).__name__}: {ex}")
    if src[1] > cap:
        return r.fail("over_capacity_accepted", inp, f"sequence of {src[1]} ticks accepted as a {num}/{den} bar ({cap} ticks)")
    if len(ts_events) > 1 or any(x != (num, den) for x in ts_events):
        return r.fail("conflicting_signature_accepted", inp, f"signatures {ts_events} accepted for a {num}/{den} bar")
    tl = timeline_rel(b.sequence.rel._messages)
    if Fraction(tl[1]) != cap:
        return r.fail("exact_length", inp, f"bar lasts {tl[1]} ticks, signature {num}/{den} needs {cap}")
    msgs = b.sequence.rel._messages
    ts = [m for m in msgs if m.message_type == MT.TIME_SIGNATURE]
    if not msgs or msgs[0].message_type != MT.TIME_SIGNATURE or len(ts) != 1 or (ts[0].numerator, ts[0].denominator) != (num, den):
        return r.fail("single_leading_signature", inp, f"signature events {[(m.numerator, m.denominator) for m in ts]}, first message {msgs[0].message_type if msgs else None}")
    if types_int(msgs) or types_int(b.sequence.abs._messages):
        return r.fail("int_ticks", inp, f"{types_int(msgs)}")
    c = b.copy()
    if canon(timeline_rel(c.sequence.rel._messages)) != canon(timeline_rel(b.sequence.rel._messages)) or (c.time_signature_numerator, c.time_signature_denominator, c.key_signature) != (num, den, b.key_signature):
        return r.fail("copy_equal", inp, "Bar.copy() differs from the bar")
    if roll(tl) != {x for x in roll(src)} and well_paired(src):
        return r.fail("content_kept", inp, "bar construction changed the sounding set of a well-paired sequence")


def run(r):
    rng = r.rng
    sigs = [(4, 4), (3, 4), (6, 8), (2, 2), (5, 16), (7, 8), (1, 32), (3, 64), (1, 64), (9, 8), (12, 8), (5, 4)]
    r.rules.append("grid: 12 signatures (incl. fractional-tick capacities) x durations {0, cap-1, cap, cap+1, 2cap} x signature content {none, matching, conflicting, matching twice, matching+conflicting, conflicting sharing a component} x key {None, D}; "
                   "plus seeded random sequences; distinct = distinct (sequence, signature, key)")
    for num, den in sigs:
        cap = Fraction(num * 4 * PPQN, den)
        base = int(cap)
        for dur in sorted({0, max(base - 1, 0), base, base + 1, 2 * base, 200}):
            for sigc in ("none", "match", "conflict", "match2", "match_then_conflict", "conflict_then_match", "shares_component"):
                ex = {"none": [], "match": [(0, ('ts', num, den))], "conflict": [(0, ('ts', num + 1, den * 2))], "match2": [(0, ('ts', num, den)), (min(3, dur), ('ts', num, den))],
                      "match_then_conflict": [(0, ('ts', num, den)), (min(3, dur), ('ts', num + 1, den * 2))], "conflict_then_match": [(0, ('ts', num + 1, den * 2)), (min(3, dur), ('ts', num, den))],
                      "shares_component": [(0, ('ts', num, den)), (min(3, dur), ('ts', num + 1, den))]}[sigc]
                notes = [(0, 60, 0, dur, 64)] if dur > 0 else []
                items = notes_to_rel(notes, ex)
                for key in (None, "D"):
                    r.case("grid", [items, num, den, key]); check(r, items, num, den, key)
    for _ in range(400 if r.tier == "quick" else 8000):
        num, den = rng.choice(sigs[:6])
        notes = gen_notes(rng, rng.randrange(0, 5), channels=(0, 1), pitches=(60, 62), max_on=80, durs=(1, 6, 12, 24, 40))
        ex = [(rng.choice((0, 6)), ('ts', num, den))] if rng.random() < 0.5 else []
        items = notes_to_rel(notes, ex, rng.choice((0, 3)))
        r.case("random", [items, num, den]); check(r, items, num, den, None)


def replay(r, chk, inp):
    check(r, inp["items"], inp["num"], inp["den"], inp["key"])
