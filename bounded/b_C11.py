"""C11 bounded: integer tick types through operation histories, bars shorter than capacity, tracks of unequal length, tokens."""
from common import *
import re
from scoda.elements.bar import Bar
from scoda.elements.track import Track
from scoda.elements.composition import Composition
from scoda.tokenisation.notelike_tokenisation import MultiTrackLargeVocabularyNotelikeTokeniser as Tok

TOKRE = re.compile(r"^(pad|sta|sto|bar|rst_\d+|tsg_\d+_\d+|((trk_\d+|pit_\d+|val_\d+|vel_\d+)(-|$))+)$")


def bad_times(s):
    import copy as _c
    d = _c.deepcopy(s)
    out = types_int(d.abs._messages)
    d = _c.deepcopy(s)
    return out + types_int(d.rel._messages)


@guarded
def check(r, tracks, seed):
    inp = {"tracks": tracks, "seed": seed}
    rng = random.Random(seed)
    seqs = [rseq(t) for t in tracks]
    ops = ["quantise", "normalise", "pad", "split", "merge", "concat", "transpose", "cutoff", "scale", "qnl", "bars", "bar", "composition", "tokens", "tokens_plain"]
    for step in range(4):
        op = rng.choice(ops)
        s = seqs[0]
        try:
            if op == "quantise": s.quantise(rng.choice(([4, 6], None)))
            elif op == "normalise": s.normalise()
            elif op == "pad": s.pad(rng.choice((10, 96, 200)))
            elif op == "split": seqs = s.split([rng.choice((5, 24, 96))]) + seqs[1:] or seqs
            elif op == "merge" and len(seqs) > 1: s.merge([seqs[1].copy()])
            elif op == "concat" and len(seqs) > 1: s.concatenate([seqs[1].copy()])
            elif op == "transpose": s.transpose(rng.choice((1, -30, 12)))
            elif op == "cutoff": s.cutoff(6, 3)
            elif op == "scale": s.scale(rng.choice((1, 2, 3)), quantise_afterwards=rng.random() < 0.5)
            elif op == "qnl": s.quantise_note_lengths(do_not_extend=rng.random() < 0.5)
            elif op == "bar":
                b = Bar(s.copy().split([rng.choice((24, 96))])[0] if s.rel._messages else Sequence(), 4, 4)
                seqs = [b.sequence] + seqs[1:]
            elif op == "tokens_plain":
                qs = [x.copy() for x in seqs]
                for q in qs:
                    q.quantise_and_normalise()
                tk = Tok(num_tracks=len(qs))
                toks = tk.tokenise(qs)
                badt = [t for t in toks if not TOKRE.match(t)]
                if badt:
                    return r.fail("token_rendering", inp, f"tokens that do not render integers: {badt[:4]}")
                seqs = tk.detokenise(["rst_12", "bar"] + toks + ["bar"])
            elif op in ("bars", "composition", "tokens"):
                qs = [x.copy() for x in seqs]
                for q in qs:
                    q.quantise_and_normalise()
                if op == "bars":
                    bars = Sequence.sequences_split_bars(qs, quantise_note_lengths=rng.random() < 0.5)
                    seqs = [Bar.to_sequence(bl) for bl in bars]
                elif op == "composition":
                    comp = Composition.from_sequences(qs)
                    seqs = comp.to_sequences()
                else:
                    bars = Sequence.sequences_split_bars(qs)
                    tk = Tok(num_tracks=len(qs), velocity_bins=rng.choice((1, 4)), flag_fuse_value=rng.random() < 0.5, flag_fuse_velocity=rng.random() < 0.5)
                    toks, state = [], {}
                    for k in range(len(bars[0])):
                        toks += tk.tokenise([bl[k].sequence for bl in bars], state_dict=state)
                    badt = [t for t in toks if not TOKRE.match(t)]
                    if badt:
                        return r.fail("token_rendering", inp, f"tokens that do not render integers: {badt[:4]}")
                    seqs = tk.detokenise(toks)
        except Exception as ex:
            # exceptions are other properties' business (e.g. TokenisationException for off-grid input); C11 is about types
            continue
        for k, q in enumerate(seqs):
            bt = bad_times(q)
            if bt:
                return r.fail("int_ticks", {**inp, "after": op, "step": step}, f"sequence {k} has non-integer times {bt[:4]} after {op}")


def run(r):
    rng = r.rng
    r.rules.append("seeded random histories of 4 operations out of 15 (incl. tokenising un-barred sequences and hand-made streams with a bar token before any signature token) (quantise, normalise, pad, split, merge, concatenate, transpose, cutoff, integer scale, quantise_note_lengths, Bar, bar splitting, Composition, tokenise+detokenise) "
                   "over 1-2 tracks of unequal length (bars shorter than their capacity occur by construction); both views type-checked after every step via a deep copy; distinct = distinct (tracks, seed)")
    for k in range(300 if r.tier == "quick" else 6000):
        tracks = []
        for _t in range(rng.randrange(1, 3)):
            notes = gen_notes(rng, rng.randrange(1, 6), channels=(0,), pitches=(60, 62, 64), grid=6, max_on=rng.choice((10, 30)), durs=(1, 2, 4))
            tracks.append(notes_to_rel(notes, [(0, ('ts', rng.choice((3, 4)), 4))] if _t == 0 and rng.random() < 0.5 else [], rng.choice((0, 6))))
        seed = rng.randrange(10 ** 9)
        r.case("history", [tracks, seed]); check(r, tracks, seed)


def replay(r, chk, inp):
    check(r, inp["tracks"], inp["seed"])
