#!/usr/bin/env python3
"""Generates MANIFEST.json from props.py (the single source of the per-property claims)."""
import json, os, sys
sys.path.insert(0, os.path.dirname(os.path.abspath(__file__)))
import props
ALL = [f"C{n:02d}" for n in range(1, 21)]
checks = []
for pid in ALL:
    if pid not in props.PROPS:
        continue
    p = props.PROPS[pid]
    checks.append({
        "property_id": pid,
        "quick_cmd": f"./vcheck {pid} --tier quick",
        "thorough_cmd": f"./vcheck {pid} --tier thorough",
        "evidence_file": f"evidence/{pid}.json",
        "replay_cmd_template": "./vcheck replay {path}",
        "engine": "pyvc",
        "level_claimed": {"category": p["level"], "text": p["explanation"], "design_ref": f"DESIGN.md section 6 ({pid})"},
        "level_note": p.get("note", "") + " | assumptions: " + "; ".join(p.get("assumptions", [])),
        "technique": p["technique"],
    })
na = [{"property_id": pid, "reason": props.NOT_APPLICABLE.get(pid, "check not built yet in this round (planned, see DESIGN.md section 10)")} for pid in ALL if pid not in props.PROPS]
m = {
    "version": 1,
    "setup_cmd": "./setup.sh",
    "hooks": {"guard": "S_CODA_VERIF", "enable": "none needed: contracts are sidecar files under /verif/contracts; the guard name is reserved and unused",
              "baseline_off_cmd": "cd /repo && /venv/bin/python -m pytest -ra -q -p no:cacheprovider --timeout=900 --continue-on-collection-errors",
              "source_commits": [], "add_only": True},
    "engines": [{"name": "pyvc", "path": "pyvc/", "serves_properties": [c["property_id"] for c in checks],
                 "kind_free_text": "AST->SMT verification-condition generator over the real function bodies with sidecar contracts and loop invariants; z3 5.1 (API) with cvc5 / z3 CLI fall-back; bounded stand-ins (enumeration with independent oracles) labelled as such"}],
    "checks": checks,
    "not_applicable": na,
    "notes": "Exit codes of every check: 0 held, 1 violation (VIOLATION line), 2 undecided (never a VIOLATION line), 3 checker error. Known findings: KNOWN_FINDINGS.json.",
}
json.dump(m, open(os.path.join(os.path.dirname(os.path.abspath(__file__)), "MANIFEST.json"), "w"), indent=1)
print("MANIFEST.json:", len(checks), "checks,", len(na), "not_applicable")
