#!/bin/bash
# Offline setup.  The deductive tier needs only python3-vt (z3-solver, cvc5) and /venv/bin/python (the repo's own
# interpreter, for closed-term evaluation, replay and the bounded tier); nothing is fetched or built.
set -e
cd "$(dirname "$0")"
/opt/veriftools/pyvenv/bin/python -c "import z3; print('z3', z3.get_version_string())"
/venv/bin/python -c "import mido, numpy; print('repo interpreter ok')"
mkdir -p evidence replays
